"""JSON rule documents (pkg/JsonResource.go): well-typed rules from the engine generator re-expressed as JSON in
every style the format allows (plain strings, operator objects, obj/const wrappers, n-ary operand lists, bare
numbers/booleans, nested to any depth), and malformed documents."""
import json
from grl import *
from rng import Rng
import gen

OPNAME = {"&&": "and", "||": "or", "==": "eq", "!=": "not", ">": "gt", ">=": "gte", "<": "lt", "<=": "lte", "|": "bor", "&": "band",
          "+": "plus", "-": "minus", "/": "div", "*": "mul", "%": "mod"}

DESCS = ["", "plain", "with \"quotes\"", "back\\slash", "tab\there", "line\nbreak", "é ü 中文 😀", "nbsp zwsp​", "'single'", "\x01\x7f",
         "a\\\"b", "€ × ·", "\u0080\u0081\u00ff\u0100", "\uffff\U00010000"]
STRS = ["", "a", "ab", "a b", 'q"t', "back\\slash", "é", "中文", "😀", "tab\t", "nl\n", " ", "​", "'", "\x01", "%d %s", "\\n", "a\\\"b", "\u0080", "\u007f\u0080\u0081", "\u00ff\u0100", "\uffff", "\U00010000"]


class J:
    def __init__(self, rng):
        self.r = rng
        self.pr = Printer()
        self.flags = set()

    def raw(self, e):
        """GRL text of an expression that is safe as an operand anywhere (atomic)"""
        s = self.pr.expr(e)
        return "(" + s + ")" if e[0] == "bin" else s

    def num(self, c):
        if c[0] == "i":
            return int(c[1])
        return bits_f64(int(c[1]))

    def const(self, c, must_obj=False):
        r = self.r
        t = c[0]
        if t == "nil":
            return {"obj": "nil"} if must_obj else "nil"
        if t == "s":
            if must_obj or r.chance(0.7):
                return {"const": c[1]}
            return quote(c[1])          # a raw GRL string literal
        v = c[1] if t == "b" else self.num(c)
        if must_obj or r.chance(0.5):
            return {"const": v}
        if r.chance(0.3):
            return p_const(c)           # raw literal text
        return v                        # bare number / boolean

    def callee_args(self, a):
        """(callee text, args) of a call atom the `call` operator can express, else None"""
        if a[0] == "call":
            return a[1], a[2]
        if a[0] == "meth" and a[1][0] == "v":
            return self.pr.var(a[1][1]) + "." + a[2], a[3]
        return None

    def atom(self, a, must_obj=False):
        r = self.r
        t = a[0]
        if t == "c":
            return self.const(a[1], must_obj)
        ca = self.callee_args(a)
        if ca is not None and r.chance(0.7):
            f, args = ca
            return {"call": [f] + [self.expr(x, False, in_call=True) for x in args]}
        txt = self.pr.atom(a)
        if must_obj or r.chance(0.5):
            return {"obj": txt}
        return txt

    def expr(self, e, must_obj=False, in_call=False):
        r = self.r
        t = e[0]
        if t == "atom":
            x = self.atom(e[1], must_obj)
            if in_call and x == "":
                return {"const": ""}
            return x
        if t == "par":
            inner = self.expr(e[2], True)
            if e[1]:
                if isinstance(inner, dict) and list(inner)[0] in OPNAME.values():
                    self.flags.add("not1")
                    return {"not": [inner]}
                return {"obj": "!(" + self.pr.expr(e[2]) + ")"}
            return inner
        # bin
        if not must_obj and r.chance(0.08):
            return self.raw(e)
        op = e[1]
        # flatten a left-nested chain of the same operator into one operand list
        operands = [e[3]]
        l = e[2]
        while l[0] == "bin" and l[1] == op and r.chance(0.6):
            operands.insert(0, l[3])
            l = l[2]
        operands.insert(0, l)
        if len(operands) > 2:
            self.flags.add("nary")
        objs = op in ("&&", "||")
        out = [self.expr(x, objs) for x in operands]
        if op == "!=" and any(isinstance(x, dict) and list(x)[0] in OPNAME.values() for x in out):
            self.flags.add("not-with-operator-operands")
        return {OPNAME[op]: out}

    def action(self, a):
        r = self.r
        if a[0] == "as":
            if a[1] == "=" and r.chance(0.7):
                tgt = self.pr.var(a[2])
                return {"set": [{"obj": tgt} if r.chance(0.5) else tgt, self.expr(a[3])]}
            s = self.pr.action(a)
            return s if r.chance(0.5) else s[:-1]
        ca = self.callee_args(a[1])
        if ca is not None and r.chance(0.7):
            f, args = ca
            return {"call": [f] + [self.expr(x, False, in_call=True) for x in args]}
        s = self.pr.atom(a[1])
        return s + ";" if r.chance(0.5) else s

    def rule(self, rule):
        r = self.r
        d = {"name": rule["name"]}
        desc = r.choice(DESCS)
        if desc or r.chance(0.5):
            d["desc"] = desc
        sal = int(rule["sal"])
        if sal or r.chance(0.5):
            d["salience"] = sal
        d["when"] = self.expr(rule["when"]) if r.chance(0.85) else self.pr.expr(rule["when"])
        d["then"] = [self.action(a) for a in rule["then"]]
        return d, desc, sal


def swap_strings(x, rng):
    """replace string constants by ones from a richer alphabet (escaping)"""
    if isinstance(x, list):
        if len(x) == 2 and x[0] == "s" and isinstance(x[1], str) and x[1] not in ("",) and rng.chance(0.5):
            return ["s", rng.choice(STRS)]
        return [swap_strings(y, rng) for y in x]
    return x


def scenario(rng, sid):
    g = gen.RuleGen(rng.fork(), gen.PROFILES["stable"])
    rules = g.rules(rng.range(1, 3))
    for r_ in rules:
        r_["when"] = swap_strings(r_["when"], rng)
        # Retract arguments must keep naming the rule
        r_["then"] = [a if (a[0] == "st" and a[1][0] == "call" and a[1][1] == "Retract") else swap_strings(a, rng) for a in r_["then"]]
    j = J(rng.fork())
    docs = []
    meta = []
    for r_ in rules:
        d, desc, sal = j.rule(r_)
        docs.append(d)
        meta.append({"name": r_["name"], "desc": desc, "sal": sal})
    doc = docs if (len(docs) > 1 or rng.chance(0.3)) else docs[0]
    text = json.dumps(doc, ensure_ascii=rng.chance(0.5), indent=rng.choice([None, None, 2]))
    if rng.chance(0.2):
        text = rng.choice([" ", "\n", "\t\r\n"]) + text + rng.choice(["", "\n"])
    sals = [m["sal"] for m in meta]
    sc = {"id": sid, "profile": "stable", "json": text, "meta": meta, "flags": sorted(j.flags), "det": len(set(sals)) == len(sals),
          "facts": [g.facts_full() for _ in range(2)], "no_oracle": True}
    return sc


def malformed(rng, sid):
    """documents the translator must reject"""
    ok_when = {"eq": [{"obj": "F.I"}, {"const": 1}]}
    ok_then = ["F.I = 2"]
    base = {"name": "M", "desc": "d", "salience": 1, "when": ok_when, "then": ok_then}
    kind = rng.choice(["unknown-op", "arity0", "set-arity1", "set-arity3", "and-arity1", "and-nonobject", "no-name", "no-when", "no-then", "empty",
                       "blank", "two-keys", "obj-number", "const-null", "const-array", "operand-null", "operand-array", "then-number", "when-number",
                       "when-array", "salience-float", "salience-string", "scalar", "empty-object-expr", "call-empty", "call-first-number",
                       "call-empty-string-arg", "nested-unknown", "not-json", "deep-unknown", "op-not-array", "name-number", "then-object"])
    d = json.loads(json.dumps(base))
    text = None
    if kind == "unknown-op":
        d["when"] = {rng.choice(["xor", "Eq", "EQ", "equals", "", "&&", "neq"]): [1, 2]}
    elif kind == "arity0":
        d["when"] = {rng.choice(list(OPNAME.values())): []}
    elif kind == "set-arity1":
        d["then"] = [{"set": ["F.I"]}]
    elif kind == "set-arity3":
        d["then"] = [{"set": ["F.I", 1, 2]}]
    elif kind == "and-arity1":
        d["when"] = {rng.choice(["and", "or"]): [ok_when]}
    elif kind == "and-nonobject":
        d["when"] = {rng.choice(["and", "or"]): [ok_when, rng.choice(["F.B", True, 1])]}
    elif kind == "no-name":
        if rng.chance(0.5):
            del d["name"]
        else:
            d["name"] = rng.choice(["", None])
    elif kind == "no-when":
        if rng.chance(0.5):
            del d["when"]
        else:
            d["when"] = None
    elif kind == "no-then":
        if rng.chance(0.5):
            del d["then"]
        else:
            d["then"] = None
    elif kind == "empty":
        text = ""
    elif kind == "blank":
        text = rng.choice([" ", "\n\t ", "\r\n"])
    elif kind == "two-keys":
        d["when"] = {"eq": [1, 1], "gt": [2, 1]}
    elif kind == "obj-number":
        d["when"] = {"eq": [{"obj": 5}, 1]}
    elif kind == "const-null":
        d["when"] = {"eq": [{"const": None}, 1]}
    elif kind == "const-array":
        d["when"] = {"eq": [{"const": [1]}, 1]}
    elif kind == "operand-null":
        d["when"] = {"eq": [None, 1]}
    elif kind == "operand-array":
        d["when"] = {"eq": [[1], 1]}
    elif kind == "then-number":
        d["then"] = [5]
    elif kind == "when-number":
        d["when"] = 5
    elif kind == "when-array":
        d["when"] = [ok_when]
    elif kind == "salience-float":
        d["salience"] = 1.5
    elif kind == "salience-string":
        d["salience"] = "1"
    elif kind == "scalar":
        text = rng.choice(["5", "true", "null", "\"rule\""])
    elif kind == "empty-object-expr":
        d["when"] = {}
    elif kind == "call-empty":
        d["then"] = [{"call": []}]
    elif kind == "call-first-number":
        d["then"] = [{"call": [5]}]
    elif kind == "call-empty-string-arg":
        d["then"] = [{"call": ["Log", ""]}]
    elif kind == "nested-unknown":
        d["when"] = {"and": [ok_when, {"eq": [{"plus": [1, {"pow": [2, 3]}]}, 9]}]}
    elif kind == "not-json":
        text = rng.choice(["{", "[{\"name\":", "{\"name\": \"M\", }", "[1,", "{'name':'M'}"])
    elif kind == "deep-unknown":
        x = {"nope": [1]}
        for _ in range(rng.range(2, 6)):
            x = {"plus": [1, x]}
        d["when"] = {"eq": [x, 1]}
    elif kind == "op-not-array":
        d["when"] = {"eq": rng.choice([5, "F.I", {"obj": "F.I"}, None])}
    elif kind == "name-number":
        d["name"] = 5
    elif kind == "then-object":
        d["then"] = {"set": ["F.I", 1]}
    if text is None:
        doc = [base, d] if rng.chance(0.3) else d
        text = json.dumps(doc)
    return {"id": sid, "profile": "stable", "json": text, "malformed": kind, "no_oracle": True}

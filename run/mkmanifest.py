#!/usr/bin/env python3
"""Regenerate MANIFEST.json from the table below."""
import json, os
ROOT = os.path.dirname(os.path.dirname(os.path.abspath(__file__)))
props = [json.loads(l) for l in open(os.path.join(ROOT, "properties.jsonl"))]

BASE_NOTE = ("Trusted base: Lean 4.33 kernel (axioms propext, Classical.choice, Quot.sound only, audited on every run; no sorry, "
             "no native_decide); Lean's interpreter and hardware Float for running the model; the go/ast extractors, the Go "
             "harness and the Python generators/diff. The step 'real code = Impl model' is differential validation on "
             "generated scenarios, not proof. ")

CLAIMS = {
 "C01": dict(text="Lean theorem C01_fire_sound: the model of ExecuteWithContext with its working memory (snapshot-keyed memo, "
        "substring invalidation index, ResetVariable/Reset/ResetAll) fires exactly the firings of the memo-free reference loop, each of an "
        "active rule whose condition holds from scratch on the facts of that moment — for all rule sets, facts, MaxCycle, orders, "
        "cancellation points (refinement proof execute_refines + evalE_sound). Tie: model validated against the real engine on "
        "generated scenarios (trace, facts, poll counts, memo flags, snapshots, index maps); oracle: real engine vs from-scratch semantics.",
        note="Side conditions of the theorem (structure Side): user methods referentially transparent, state-changing built-ins only as "
        "statements, injective float formatting (FloatPF; snapshot injectivity SnapInj is proved from it), FrameHyp (an assignment leaves the memo coherent).",
        tech="Lean 4 refinement proof (memo transparency) + differential correspondence", ref="5.C01"),
 "C02": dict(text="Lean theorems C02_quiescent and C02_pass_complete: when the engine model returns nil without Complete no active rule holds "
        "on the final facts; a pass that is not cut short reports exactly the satisfied active rules as candidates. Same tie and oracle as C01.",
        note="Same side conditions as C01.", tech="Lean 4 refinement proof + invariant over the reference loop + differential correspondence", ref="5.C02"),
 "C03": dict(text="Lean theorems C03_runner_is_candidate / C03_max_salience over the model of the salience scan (all Int saliences, every order); "
        "trace monitors on the real engine (at most one exec per cycle, maximal salience among reported candidates, no evaluation after the "
        "cycle's execution) and correspondence with the order oracle.",
        note="Ties broken by the iteration-order oracle observed from the real run.", tech="Lean 4 decision-logic theorems + trace monitor + correspondence", ref="5.C03"),
 "C04": dict(text="Lean theorems C04_actions_sequential (execActions with working memory = memo-free left fold specActions), C04_assign_value, "
        "C04_compound_value, C04_failure_keeps_prefix; SetNumberValue conversion cells regenerated from the Go source; the final fact tree of the "
        "caller's own objects is compared with the model's store after every run.",
        note="Same side conditions as C01; value semantics for cached values (coherent states).", tech="Lean 4 refinement proof + regenerated conversion cells + correspondence on whole fact trees", ref="5.C04"),
 "C08": dict(text="Lean theorem C08_execute_fresh: whatever an instance remembers from any earlier history, Execute equals Execute on a fresh instance "
        "(corollary of execute_refines: the reference loop does not see the instance state); histories stay inside sameRules. Tie/oracle: "
        "generated call histories on one instance vs the model and vs from-scratch semantics.",
        note="Same side conditions as C01; FetchMatchingRules covered by correspondence and oracle (theorem pending).", tech="Lean 4 corollary of the refinement theorem + history correspondence", ref="5.C08"),
 "C06": dict(text="Lean theorems C06_fires_le_max (at most MaxCycle firings; the cycle-limit error exactly after MaxCycle firings), "
        "C06_trace_is_reference_trace, termination by structural recursion on the fuel MaxCycle+1; trace monitor on the real engine "
        "(consecutive cycle numbers, every active rule evaluated once per cycle, execution only of a rule reported candidate in that cycle, "
        "limit error iff one more firing needed, listeners agree) with MaxCycle in {0,1,2,3,5,8,12} and 0-3 listeners.",
        note="Side conditions as C01. A user method that never returns is outside the model.", tech="Lean 4 invariant over the reference loop + refinement + trace monitor", ref="5.C06"),
 "C10": dict(text="Lean theorems C10_retract_effect, C10_retract_only_named, C10_retract_unknown_noop, C10_retracted_never_candidate, "
        "C10_complete_effect (remaining actions still run) over the reference semantics that the engine model refines; generated rule sets "
        "retract self/other/unknown/case-variant names and call Complete at every action position; real engine vs model vs from-scratch semantics.",
        note="Side conditions as C01.", tech="Lean 4 theorems on the reference semantics + refinement + differential correspondence", ref="5.C10"),
 "C11": dict(text="Lean theorem C11_exact: FetchMatchingRules (model with working memory) returns exactly the non-removed entries whose condition holds "
        "from scratch, sorted by non-increasing salience (sortStable_sorted), as a permutation of the matching entries (sortStable_perm), facts untouched; "
        "no FrameHyp needed (no writes). C11_error_mode. Real engine vs model vs reference on generated rule sets incl. removed rules, equal saliences, failing conditions.",
        note="MethodsPure, FloatPF (gives the proved SnapInj), wfRule, unique keys.", tech="Lean 4 refinement proof for fetch + sort lemmas + correspondence", ref="5.C11"),
 "C13": dict(text="Lean theorems C13_hit_skips_* (a remembered node is not evaluated again: no call, state untouched), C13_remembered, "
        "C13_cleared_only_when_indexed, C13_index_only_infix (the index lists a node under a variable only if the variable's snapshot occurs in the node's). "
        "Tie/oracle: the sequence of real user-method calls (name, arguments) of every run must equal the model's; an extra real call is reported as a C13 violation.",
        note="Counted methods of the harness catalogue; at-most-once is relative to the model's invalidation events.", tech="Lean 4 theorems on memo hits and the invalidation index + call-sequence correspondence", ref="5.C13"),
 "C14": dict(text="Lean theorems C14_cond_failure_contained / _default / _retErr, C14_action_failure (failing action k keeps the effects of actions 1..k-1), "
        "C14_failure_not_memoised on the reference semantics refined by the engine model (errors and panics are distinct in the model; both end at the rule boundary). "
        "Generated fault plans: panicking methods, k-th call failures, nil pointers, missing facts/keys/fields, index out of range, kind mismatch, modulo by zero; "
        "the harness wraps Execute in recover and reports an escaping panic.",
        note="Side conditions as C01 for the refinement.", tech="Lean 4 theorems on failure propagation + fault-plan correspondence", ref="5.C14"),
 "C15": dict(text="Lean theorems C15_no_action_after_cancel (from any loop state where ctx.Err() would report cancellation nothing changes and the result is the "
        "context's error; cancellation is monotone) and C15_precancelled. Check: every cancellation point of base runs is enumerated on the real engine "
        "(poll index p in 0..P+1, listener-triggered cancellation at every event, Canceled and DeadlineExceeded, fact methods cancelling from inside a "
        "condition/action); trace, facts and poll counts compared with the model; monitor: cancelled-but-not-reported, fired-after-cancel.",
        note="Wall-clock deadlines are modelled as cancellation at an arbitrary poll. Fix 94e54e4 in /repo (context re-checked after the pass).", tech="Lean 4 theorems over poll points + exhaustive cancellation-point enumeration", ref="5.C15"),
 "C19": dict(text="Lean theorems C19_consistent (exactly one of <,==,>; <= is < or ==; >= is > or ==; != is not ==), C19_mirror, C19_bool, "
        "C19_width_independent, C19_int_uint_denotation for every ordered kind pair of a family and all values (floats as IEEE bit patterns compared "
        "in integer arithmetic, NaN excluded; times by instant), proved about canonical tables that are proved equal (by decide, no axioms) to the "
        "tables a go/ast extractor regenerates from pkg/reflectmath.go on every run. The extractor is validated by evaluating the real pkg.Evaluate* "
        "functions and the model on a boundary-rich operand grid; the C19 statement and exact rational comparison are monitored on the real results.",
        note="int->float64 conversion and float comparison are implemented on bit patterns in Nat/Int arithmetic (validated against hardware floats "
        "and Go); unsigned operands >= 2^63 against signed ones are outside the property's int64 window. Fix 3c0c121 in /repo (time compared by instant).",
        tech="Lean 4 theorems over regenerated operator tables (decide tie) + real-function grid validation", ref="5.C19"),
 "C07": dict(text="Lean theorems C07_status_alone (in any joint knowledge base, any order, a pass reports a rule as candidate iff its own condition holds), "
        "C07_meaning_is_local, C07_sharing_unobservable (the run with snapshot-keyed sharing is the reference run), C07_snapshots_determine_nodes (equal snapshots only for equal nodes, all ASTs). Snapshot printers are mirrored exactly "
        "(strconv.QuoteToASCII, shortest float formatting implemented in integer arithmetic) and compared string-by-string with the real ones, as are the "
        "working-memory key sets; oracle: every sibling rule behaves together exactly as alone on the real engine.",
        note="SnapInj (snapshots determine nodes) is proved (C07_snapshots_determine_nodes: the printers write a prefix code) from FloatPF, injectivity of shortest float formatting, for ASTs without NaN constants; fixes 162f0cf (float "
        "constants) and 9d8d3f3 (string constants) in /repo removed the two known collisions.", tech="Lean 4 corollaries of the refinement theorem + exact snapshot correspondence + alone-vs-together oracle", ref="5.C07"),
 "C16": dict(text="Lean theorems over the library model: C16_build_preserves (unique keys, key = RuleName and every existing entry unchanged by any accepted or "
        "rejected resource), C16_remove (the name is free, the entry tomb-stoned, others untouched; both tomb-stone namings), C16_remove_inv, C16_name_reusable, "
        "C16_storeLoad (no removed rule comes back), C16_instance_keeps_flags; removed entries are never candidates/fetched by C01/C11. Real library vs model after "
        "every step of generated operation histories over one or two knowledge bases; monitors on the real results.",
        note="uuid of library-level tomb-stones is taken from the real run (oracle). Fix 72ac919 in /repo (removed rules are not stored).",
        tech="Lean 4 invariants over operation histories + history correspondence + monitors", ref="5.C16"),
 "C09": dict(text="partial: Lean theorems C09_instance_succeeds (for every knowledge base, whatever its history), C09_faithful (an instance behaves as the reference "
        "semantics of the blueprint's rules), C09_isolated, C09_steps_commute (steps on different instances commute: every schedule gives each instance its "
        "sequential result), C09_blueprint_untouched — about a model in which instances are values. That the implementation allocates fresh objects is validated: "
        "reflective pointer-graph disjointness of blueprint and instances after every history; concurrent creation+execution from N goroutines compared with the "
        "sequential model; thorough tier under the Go race detector with GOMAXPROCS 1, 2, 16.",
        note="Go-memory-model data races cannot be exhibited by the model (named in DESIGN.md); validation only. Fix fc27539 in /repo (rejected resources no longer break instance creation).",
        tech="Lean 4 theorems (value-semantics model) + pointer-graph check + race-detector runs", ref="5.C09"),
 "C12": dict(text="Lean theorems C12_roundtrip (load(encode c) = c for every catalog), C12_truncation (every strict prefix of an encoding is rejected: all offsets, "
        "by a compositional prefix-failure lemma over the decoder combinators), C12_restore, C12_overwrite_false; the per-type field sequences and the frame are "
        "regenerated from ast/Serializer.go and proved equal to the model's schemas by decide (tie_write_eq_read, tie_schema, tie_frame). The Lean decoder is run "
        "on the real streams (must re-encode byte-identically) and compared with the real loader at cut offsets; loaded instances vs model vs reference semantics.",
        note="Map iteration order is stream order in the model. Removed rules are not stored (C16). Fixes a04190d (EOF is an error) and 72ac919 in /repo.",
        tech="Lean 4 prefix-code proof over decoder combinators + regenerated wire schemas (decide tie) + byte-level correspondence", ref="5.C12"),
 "C05": dict(text="Lean theorems over the canonical operator tables (proved equal by decide to the tables regenerated from pkg/reflectmath.go on every run): "
        "C05_int_arith / _exact (64-bit Go arithmetic, exact when the result fits), C05_div_real (/ is the real quotient), C05_promotion, C05_concat, C05_int_mod, "
        "C05_bitops, C05_logic, C05_ill_typed; over the from-scratch semantics the engine refines: C05_and/or_short_circuit, C05_parens, C05_neg_atom, "
        "C05_args_in_order, C05_method_gets_args; C05_keyword_case; whitespace, comments and keyword case never change the parsed rules (C05_layout_independent, C05_case_and_layout_free, C05_keyword_any_case: lexer model + parser never reads fixed-token texts); the string built-ins Count/Index/LastIndex/Repeat/Replace/Trim/ToUpper/ToLower/Contains/HasPrefix/HasSuffix/In/Len are model functions validated on a receiver-kind x needle grid (Go field, map value, top-level, JSON member, constant, call result). Grouping: the model's precedence-climbing parser is tied by decide to the generated "
        "parser's precedence predicates, the grammar's operator rules and the published table (T2, C05_precedence_tied). Tie of lexer/parser/listener to "
        "the model: correspondence on re-rendered texts (all literal notations, spacing, comments, keyword case, redundant parentheses) with exact snapshot "
        "strings, three-way grouping check on flat operator chains, all-operator grid on pkg.Evaluate*.",
        note="R10 is proved at token level: C05_parse_print (Proofs/ParseGroup, ParseAtoms, ParseDoc) — for every well-formed expression tree of any size the "
        "parser model returns exactly that tree from its token sequence (operators by prec, left associative; parentheses, negation, calls, members, selectors, "
        "argument lists), the literal decoder being a parameter (ConstOK; satisfiable: unary_ok) and instantiated with the real decoder for integers inside int64, "
        "quotable strings, booleans and nil (C05_parse_print_real, Proofs/RealLiterals; floats not covered). Not proved: the lexer (characters to tokens: spacing, comments, "
        "keyword case) and the literal notations of realDec (ParseInt/ParseFloat/unquote, exact rational arithmetic in the model) — validated by the correspondence. "
        "Fix 82ab5bc corrected the published table (& binds like + - |).",
        tech="Lean 4 theorems over regenerated operator tables + regenerated syntax facts (decide ties) + differential correspondence of the front end", ref="5.C05"),
 "C17": dict(text="Lean model of the whole front end (Syntax/Lexer: every lexer rule, maximal munch, first rule wins, runtime recovery; Syntax/Parser: the "
        "parser rules as recursive descent building the listener's AST; Syntax/Literal: ParseInt base 0, ParseFloat, unquoteString; Syntax/Front: verdict) and "
        "of BuildRuleFromResource (KB.buildText). Theorems: C17_accepted_all_present (an accepted text with distinct fresh names yields no error and every rule "
        "is in the knowledge base under its name with its description, salience, condition, actions), C17_rejected_harmless / _same_instances (a rejected text "
        "yields an error and leaves entries, working memory, instances and stored stream exactly as before), C17_existing_rules_stay, accepted_means. The "
        "recogniser is the independent oracle of the check: accept/reject and error channel (lexer/parser) of the real builder vs the model on generated valid "
        "documents and their token/character mutations; monitors for the three sentences on the real builder; lexer rule order, token texts, identifier "
        "ranges tied by decide to facts regenerated from antlr/grulev3.g4.",
        note="What runs in /repo is the generated ANTLR lexer/parser (serialized ATN), not the grammar file: their agreement with the model is differential "
        "validation. Proved at token level: C17_valid_documents_parse / C17_parseDoc_roundtrip (every sequence of well-formed rules is read back from its tokens as "
        "exactly these rules, no error, with the parser's own fuel; round trip R10), C17_illegal_start_rejected, C17_leading_whitespace, and the converse C17_accepted_rules_wellformed / C17_parser_range (whatever is accepted is a well-formed "
        "document: condition, at least one action, grouping by prec) — the parser's range is exactly the well-formed documents. Proved at character level: C17_text_to_rules (for every well-formed document with writable names and literals "
        "the lexer model reads the canonical text — each token in canonical spelling followed by one space — into the document's tokens without error, maximal munch "
        "decided rule by rule, and the parser with the real literal decoder reads them back as exactly the document), C17_lex_render, C17_grammatical_decoder_free (grammaticality does not depend on the literal decoder), C17_front_accepts_canonical and C17_canonical_text_builds (building the canonical text of a well-formed document with new distinct names reports no error and appends exactly its rules), C17_lexable_is_valid. Not proved: other spacings and "
        "comments between tokens, float and non-decimal literal notations (sampled by the correspondence per token pair). Fixes 3cd0826 (a "
        "rejected resource adds no rule) and 2e94e10 (salience out of range is an error, not a panic) in /repo.",
        tech="Lean 4 executable front-end model + theorems on the builder's effect + regenerated lexer facts (decide ties) + mutation-based differential correspondence", ref="5.C17"),
 "C18": dict(text="Lean model of pkg/JsonResource.go function by function (Json/Translate: depth-dependent bracketing, noWrap, single-operand not, number "
        "formatting by exact shortest-digit arithmetic, strconv.Quote) and of the meaning of a JSON rule (Json/Sem: the operator tree read directly as a syntax "
        "tree, operands grouped as nested). Theorems: every malformed shape the property names is rejected (C18_unknown_operator, _two_keys, _empty_object, "
        "_arity_zero, _compound_arity, _compound_operand_type, _set_arity, _call_shape, _operand_type, _missing_parts, _ruleset_all_or_nothing) and "
        "C18_operand_wrapped (where parentheses are added). Tie: the real translator's text equals the model's byte for byte on generated documents; the model's "
        "parse of that text equals Sem modulo grouping parentheses; and, independent of the model's parser, the real engine run on the translated text agrees with "
        "the real engine run on the explicitly grouped meaning (outcome, facts, fired rules); name/description/salience compared with the document.",
        note="Also proved: C18_const_string — unquote(quoteGo s) = s for every string over the modelled IsPrint table (the 'string constants round-trip exactly' "
        "sentence). The meaning theorem 'parse(lex(translate j)) = Sem j for every tree' is not proved (the token-level round trip is, the lexer step is not); it is "
        "validated on every run as described. encoding/json's decoding into the GruleJSON struct and unicode.IsPrint (a table; modelled for ASCII and 23 listed "
        "code points, others are reported unmodelled) are modelled in the driver, not verified. Fixes af5d32f, 11fbd47, a61ddb2, 93e05b8, 0a50cc6 in /repo.",
        tech="Lean 4 executable translator + meaning models, rejection theorems + byte-level correspondence + meaning check on the real engine", ref="5.C18"),
 "C20": dict(text="PARTIAL. Proved over the Lean models: the payload allocation of LoadKnowledgeBaseFromReader on any byte string is at most its length plus one 64 KiB "
        "block (C20_grb_alloc_bounded over readAlloc/readMany, the model of readBytesFromReader/preallocCount; readAlloc_le, readAlloc_success), short streams "
        "allocate nothing (C20_grb_short), JSON nesting is cut at 1024 levels (C20_json_depth_guard), the GRL front end is a total function whose only "
        "rule-bearing verdict is `accepted` (C20_grl_verdict_total; an out-of-range salience is a verdict, not a panic), snapshots grow additively — a chain of n selectors adds O(n) characters (C20_selector_snapshot_additive, C20_selector_chain_linear; it was 2^n before fix d4abfaa). Ties regenerated from the sources on every "
        "run (T4, decide): the list of every make() with a data-dependent size in ast/Serializer.go, the loader's deferred recover, the blank-input guard, the depth "
        "guard constant, the salience guard. Everything else is validation, not proof: each loader runs in a child process (8 GiB address-space cap, wall-clock "
        "limit) on random bytes and structure-aware mutants (bit flips, length-field edits, truncation, splicing, boundary numbers, nesting bombs) of valid "
        "GRL / JSON-rule / JSON-fact / GRB inputs; process death, recovered panics, time and bytes allocated are compared with explicit budgets.",
        note="Runtime behaviour the model cannot exhibit and that is only validated: cost of the ANTLR runtime and generated parser, encoding/json, Go allocator and "
        "stack limits. Known findings F19a/F19b (super-linear time and memory of the GRL front end on deeply nested or long expressions) are printed as "
        "KNOWN-FINDING on every run. Fixes 8ec1b87 (GRB allocations), 2e94e10 (salience panic), af5d32f (blank JSON), d4abfaa (F20: exponential snapshot of chained selectors on a call result) in /repo.",
        tech="Lean 4 allocation-bound proof over the wire reader model + regenerated loader facts (decide ties) + sandboxed child-process validation with budgets", ref="5.C20"),
}

def main():
    checks = []
    na = []
    for p in props:
        pid = p["id"]
        if pid in CLAIMS and os.path.exists(os.path.join(ROOT, "lean", "GruleModel", "Properties", pid + ".lean")):
            cl = CLAIMS[pid]
            checks.append({
                "property_id": pid,
                "quick_cmd": "python3 run/check.py --property %s --tier quick" % pid,
                "thorough_cmd": "python3 run/check.py --property %s --tier thorough" % pid,
                "evidence_file": "/verif/evidence/%s.json" % pid,
                "replay_cmd_template": "python3 run/check.py --property %s --replay {path}" % pid,
                "engine": "lean-model+harness",
                "level_claimed": {"category": "proof", "text": cl["text"], "design_ref": cl["ref"]},
                "level_note": BASE_NOTE + cl["note"],
                "technique": cl["tech"],
            })
        else:
            na.append({"property_id": pid, "reason": "check under construction in this round (model exists or is planned; will be claimed once its check runs clean)"})
    m = {"version": 1, "setup_cmd": "python3 run/setup.py",
         "hooks": {"guard": "verif", "enable": "go build -tags verif (no hook is needed so far: all observation goes through public API)",
                   "baseline_off_cmd": "python3 run/baseline.py", "source_commits": [], "add_only": True},
         "engines": [
             {"name": "lean-model", "path": "lean/", "serves_properties": [c["property_id"] for c in checks],
              "kind_free_text": "Lean 4 model (Impl + Spec), theorems in lean/GruleModel/Properties, helper proofs in lean/GruleModel/Proofs"},
             {"name": "extractors", "path": "tools/extract/", "serves_properties": ["C04", "C05", "C12", "C17", "C19", "C20"],
              "kind_free_text": "go/ast translators regenerating lean/GruleModel/Gen/*.lean from /repo on every run"},
             {"name": "harness", "path": "harness/", "serves_properties": [c["property_id"] for c in checks],
              "kind_free_text": "Go harness running scenarios on the real engine in-process; run/*.py generate, canonicalise, diff"}],
         "checks": checks, "not_applicable": na,
         "notes": "See DESIGN.md. Fix commits in /repo: see known_findings.json."}
    json.dump(m, open(os.path.join(ROOT, "MANIFEST.json"), "w"), indent=1)
    print("claimed:", [c["property_id"] for c in checks])

if __name__ == "__main__":
    main()

#!/bin/bash
# run every claimed check (quick tier) on the current tree; prints one line per check
cd /verif
for p in $(python3 -c "import json; print(' '.join(c['property_id'] for c in json.load(open('MANIFEST.json'))['checks']))"); do
  python3 run/check.py --property $p --tier ${1:-quick} 2>&1 | grep -E "VIOLATION|KNOWN|PASS|FAIL" | cut -c1-220
done

#!/bin/bash
# usage: confirm_mutant.sh <outdir e.g. /tmp/out-C15/m1> <id>   — confirm in a scratch worktree; store under /verif/seeded/<id>
src=$1; id=$2
wt=/tmp/confirm-$id
export GOFLAGS=-mod=mod GOPROXY=off
git -C /repo worktree add -q --detach $wt HEAD || exit 2
cd $wt
demo=$(ls $src/*_test.go | head -1)
pkgdir=$(python3 -c "
import json,sys,re
m=json.load(open('$src/meta.json'))
d=str(m.get('demo'))
mm=re.search(r'(engine|ast|builder|antlr|model|pkg|examples)', d)
print(mm.group(1) if mm else 'engine')")
cp $demo $wt/$pkgdir/
name=$(basename $demo)
res_clean=$(go test -vet=off -count=1 -run 'Demo' ./$pkgdir/ 2>&1 | tail -1)
if git apply --3way $src/patch.diff 2>/dev/null || git apply $src/patch.diff; then applied=yes; else applied=no; fi
build=$(go build ./... 2>&1 | tail -1)
res_mut=$(go test -vet=off -count=1 -run 'Demo' ./$pkgdir/ 2>&1 | tail -1)
rm -f $wt/$pkgdir/$name
suite=$(go test -vet=off -count=1 ./ast/... ./engine/... ./builder/... ./antlr/... ./model/... ./examples/... 2>&1 | grep -v "^ok\|no test files" | head -3)
suite2=$(go test -vet=off -count=1 -run 'TestEvaluate|TestValue|TestJSON|TestJson|TestParse|TestGet|TestSet|TestIs|TestInvoke|TestString|TestNewJSON|TestNewBytes|TestEmbedded|TestFile' ./pkg/... 2>&1 | grep -v "^ok\|no test files" | head -3)
git diff HEAD -- . ":(exclude)*_test.go" > /tmp/confirm-$id.diff
cd /verif
git -C /repo worktree remove --force $wt
echo "applied=$applied build=[$build] demo_clean=[$res_clean] demo_mutated=[$res_mut] suite_failures=[$suite$suite2]"
case "$res_clean" in ok*) c1=1;; *) c1=0;; esac
case "$res_mut" in FAIL*) c2=1;; *) c2=0;; esac
if [ "$applied" = yes ] && [ $c1 = 1 ] && [ $c2 = 1 ] && [ -z "$suite$suite2" ]; then
  mkdir -p /verif/seeded/$id
  cp /tmp/confirm-$id.diff /verif/seeded/$id/patch.diff
  cp $demo /verif/seeded/$id/
  cp $src/meta.json /verif/seeded/$id/meta.agent.json
  echo CONFIRMED
else
  echo NOT-CONFIRMED
fi
rm -f /tmp/confirm-$id.diff

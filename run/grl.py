"""GRL ASTs (the JSON form shared with the Lean driver), their GRL text printer, fact trees.

AST forms (nested lists):
  Expr : ["bin", op, l, r] | ["par", neg, e] | ["atom", a]
  Atom : ["c", const] | ["v", var] | ["call", f, [e..]] | ["meth", recv, f, [e..]] | ["mem", recv, n]
         | ["sel", recv, e] | ["neg", a]
  Var  : ["root", n] | ["fld", v, n] | ["idx", v, e]
  Const: ["s", str] | ["i", "dec"] | ["f", "bits", "text"] | ["b", bool] | ["nil"]
  Action: ["as", op, var, expr] | ["st", atom]
"""
import struct

PREC = {"*": 5, "/": 5, "%": 5, "+": 4, "-": 4, "&": 4, "|": 4,
        ">": 3, "<": 3, ">=": 3, "<=": 3, "==": 3, "!=": 3, "&&": 2, "||": 1}


def f64bits(x: float) -> int:
    return struct.unpack("<Q", struct.pack("<d", x))[0]


def bits_f64(b: int) -> float:
    return struct.unpack("<d", struct.pack("<Q", b))[0]


def float_text(x: float) -> str:
    """a GRL decimal float literal that parses back to exactly x (DEC_LIT '.' DIGITS [exp])"""
    r = repr(abs(x))
    if "e" in r or "E" in r:
        m, e = r.lower().split("e")
        if "." not in m:
            m += ".0"
        r = m + "e" + e.replace("+", "")
    elif "." not in r:
        r += ".0"
    return ("-" if x < 0 or (x == 0 and str(x).startswith("-")) else "") + r


# constructors ---------------------------------------------------------------------------------
def cint(i): return ["c", ["i", str(int(i))]]
def cstr(s): return ["c", ["s", s]]
def cbool(b): return ["c", ["b", bool(b)]]
def cfloat(x): return ["c", ["f", str(f64bits(x)), float_text(x)]]
def cnil(): return ["c", ["nil"]]
def root(n): return ["root", n]
def fld(v, n): return ["fld", v, n]
def idx(v, e): return ["idx", v, e]
def var(v): return ["v", v]
def atom(a): return ["atom", a]
def bin_(op, l, r): return ["bin", op, l, r]
def par(e, neg=False): return ["par", bool(neg), e]
def call(f, *args): return ["call", f, list(args)]
def meth(recv, f, *args): return ["meth", recv, f, list(args)]
def mem(recv, n): return ["mem", recv, n]
def sel(recv, e): return ["sel", recv, e]
def neg(a): return ["neg", a]
def assign(op, v, e): return ["as", op, v, e]
def stmt(a): return ["st", a]


def path(s):
    """'F.P.N' -> Var"""
    parts = s.split(".")
    v = root(parts[0])
    for p in parts[1:]:
        v = fld(v, p)
    return v


def quote(s: str) -> str:
    out = ['"']
    for ch in s:
        if ch == '"':
            out.append('\\"')
        elif ch == "\\":
            out.append("\\\\")
        elif ch == "\n":
            out.append("\\n")
        elif ch == "\t":
            out.append("\\t")
        elif ch == "\r":
            out.append("\\r")
        else:
            out.append(ch)
    out.append('"')
    return "".join(out)


def p_const(c):
    t = c[0]
    if t == "s":
        return quote(c[1])
    if t == "i":
        return c[1]
    if t == "f":
        return c[2]
    if t == "b":
        return "true" if c[1] else "false"
    return "nil"


class Printer:
    """Prints with exactly the parentheses present in the AST (["par"] nodes): the AST mirrors the
    parse tree. `sp` is the inter-token spacing."""

    def __init__(self, sp=" "):
        self.sp = sp

    def expr(self, e):
        t = e[0]
        if t == "bin":
            return self.expr(e[2]) + self.sp + e[1] + self.sp + self.expr(e[3])
        if t == "par":
            return ("!" if e[1] else "") + "(" + self.expr(e[2]) + ")"
        return self.atom(e[1])

    def args(self, a):
        return ("," + self.sp).join(self.expr(x) for x in a)

    def atom(self, a):
        t = a[0]
        if t == "c":
            return p_const(a[1])
        if t == "v":
            return self.var(a[1])
        if t == "call":
            return a[1] + "(" + self.args(a[2]) + ")"
        if t == "meth":
            return self.atom(a[1]) + "." + a[2] + "(" + self.args(a[3]) + ")"
        if t == "mem":
            return self.atom(a[1]) + "." + a[2]
        if t == "sel":
            return self.atom(a[1]) + "[" + self.expr(a[2]) + "]"
        if t == "neg":
            return "!" + self.atom(a[1])
        raise ValueError(t)

    def var(self, v):
        t = v[0]
        if t == "root":
            return v[1]
        if t == "fld":
            return self.var(v[1]) + "." + v[2]
        return self.var(v[1]) + "[" + self.expr(v[2]) + "]"

    def action(self, a):
        if a[0] == "as":
            return self.var(a[2]) + self.sp + a[1] + self.sp + self.expr(a[3]) + ";"
        return self.atom(a[1]) + ";"

    def rule(self, r):
        s = "rule " + r["name"]
        if r.get("desc") is not None and r.get("hasDesc", True):
            s += " " + quote(r["desc"])
        if r.get("hasSal", True):
            s += " salience " + r["sal"]
        s += " {\n  when " + self.expr(r["when"]) + "\n  then\n"
        for a in r["then"]:
            s += "    " + self.action(a) + "\n"
        s += "}\n"
        return s

    def doc(self, rules):
        return "\n".join(self.rule(r) for r in rules)


def mkrule(name, when, then, sal=0, desc=None):
    """desc None -> no description in the text (engine default "No Description")"""
    return {"name": name, "desc": desc if desc is not None else "No Description", "hasDesc": desc is not None,
            "sal": str(sal), "hasSal": True, "when": when, "then": then}


def needs_paren(parent_op, child, right):
    """does `child` (a bin expr) need parentheses under parent_op to keep the tree shape?"""
    if child[0] != "bin":
        return False
    pc, pp = PREC[child[1]], PREC[parent_op]
    if pc < pp:
        return True
    if pc == pp and right:
        return True
    return False


def normalize(e):
    """insert ["par"] nodes where the grammar needs them so that printing+parsing yields this tree"""
    t = e[0]
    if t == "bin":
        l, r = normalize(e[2]), normalize(e[3])
        if needs_paren(e[1], l, False):
            l = par(l)
        if needs_paren(e[1], r, True):
            r = par(r)
        return ["bin", e[1], l, r]
    if t == "par":
        return ["par", e[1], normalize(e[2])]
    return ["atom", norm_atom(e[1])]


def norm_atom(a):
    t = a[0]
    if t == "v":
        return ["v", norm_var(a[1])]
    if t == "call":
        return ["call", a[1], [normalize(x) for x in a[2]]]
    if t == "meth":
        return ["meth", norm_atom(a[1]), a[2], [normalize(x) for x in a[3]]]
    if t == "mem":
        return ["mem", norm_atom(a[1]), a[2]]
    if t == "sel":
        return ["sel", norm_atom(a[1]), normalize(a[2])]
    if t == "neg":
        return ["neg", norm_atom(a[1])]
    return a


def norm_var(v):
    if v[0] == "fld":
        return ["fld", norm_var(v[1]), v[2]]
    if v[0] == "idx":
        return ["idx", norm_var(v[1]), normalize(v[2])]
    return v


def norm_action(a):
    if a[0] == "as":
        return ["as", a[1], norm_var(a[2]), normalize(a[3])]
    return ["st", norm_atom(a[1])]


def collect_ftext(x, acc):
    """(bits, text) of every float constant in an AST"""
    if isinstance(x, list):
        if len(x) == 3 and x[0] == "f" and isinstance(x[1], str):
            acc[x[1]] = x[2]
        for y in x:
            collect_ftext(y, acc)
    elif isinstance(x, dict):
        for y in x.values():
            collect_ftext(y, acc)
    return acc


# fact trees ------------------------------------------------------------------------------------

def leaf(kind, v):
    if kind in ("float64", "float32"):
        if kind == "float32":
            v = struct.unpack("<f", struct.pack("<f", v))[0]
        return [kind, str(f64bits(float(v)))]
    if kind == "string":
        return ["string", v]
    if kind == "bool":
        return ["bool", bool(v)]
    return [kind, str(int(v))]


FACT_FIELDS = [("I", "int64"), ("J", "int64"), ("I8", "int8"), ("I16", "int16"), ("I32", "int32"), ("In", "int"),
               ("U8", "uint8"), ("U16", "uint16"), ("U32", "uint32"), ("U64", "uint64"), ("Un", "uint"),
               ("F", "float64"), ("G", "float64"), ("F32", "float32"), ("S", "string"), ("T", "string"),
               ("B", "bool"), ("C", "bool"), ("Tm", "time"), ("Tn", "time"), ("P", "*Sub"), ("Q", "*Sub"), ("V", "Sub"),
               ("A", "[]int64"), ("AS", "[]string"), ("AF", "[]float64"), ("AP", "[]*Sub"), ("AA", "[][]int64"),
               ("M", "map[string]int64"), ("MS", "map[string]string"), ("MI", "map[int64]int64"), ("X", "iface")]
SUB_FIELDS = [("N", "int64"), ("S", "string"), ("B", "bool"), ("F", "float64")]


def sub(N=0, S="", B=False, F=0.0):
    return ["struct", "Sub", [["N", leaf("int64", N)], ["S", leaf("string", S)], ["B", leaf("bool", B)],
                              ["F", leaf("float64", F)]]]


def time_leaf(delta=0, loc=0, mono=False):
    return ["time", str(delta), str(loc), (str(delta) if mono else None)]


def fact(**kw):
    """a *Fact root; unspecified fields get zero values"""
    fs = []
    for name, ty in FACT_FIELDS:
        v = kw.get(name)
        if ty in ("int64", "int8", "int16", "int32", "int", "uint8", "uint16", "uint32", "uint64", "uint"):
            fs.append([name, leaf(ty, v or 0)])
        elif ty in ("float64", "float32"):
            fs.append([name, leaf(ty, v or 0.0)])
        elif ty == "string":
            fs.append([name, leaf(ty, v or "")])
        elif ty == "bool":
            fs.append([name, leaf(ty, v or False)])
        elif ty == "time":
            fs.append([name, v if v is not None else time_leaf()])
        elif ty == "*Sub":
            fs.append([name, ["ptr", "Sub", v]])  # v: sub(...) or None
        elif ty == "Sub":
            fs.append([name, v if v is not None else sub()])
        elif ty == "[]int64":
            fs.append([name, ["slice", "int64", [leaf("int64", x) for x in (v or [])]]])
        elif ty == "[]string":
            fs.append([name, ["slice", "string", [leaf("string", x) for x in (v or [])]]])
        elif ty == "[]float64":
            fs.append([name, ["slice", "float64", [leaf("float64", x) for x in (v or [])]]])
        elif ty == "[]*Sub":
            fs.append([name, ["slice", "*Sub", [["ptr", "Sub", x] for x in (v or [])]]])
        elif ty == "[][]int64":
            fs.append([name, ["slice", "[]int64", [["slice", "int64", [leaf("int64", x) for x in row]] for row in (v or [])]]])
        elif ty == "map[string]int64":
            fs.append([name, ["map", "string", "int64", [[["s", k], leaf("int64", x)] for k, x in sorted((v or {}).items())]]])
        elif ty == "map[string]string":
            fs.append([name, ["map", "string", "string", [[["s", k], leaf("string", x)] for k, x in sorted((v or {}).items())]]])
        elif ty == "map[int64]int64":
            fs.append([name, ["map", "int64", "int64", [[["i", str(k)], leaf("int64", x)] for k, x in sorted((v or {}).items())]]])
        elif ty == "iface":
            fs.append([name, ["iface", v]])
    return ["ptr", "Fact", ["struct", "Fact", fs]]


def jtree(x):
    """python JSON value -> jobj/jarr tree"""
    if isinstance(x, dict):
        return ["jobj", [[k, jtree(v)] for k, v in x.items()]]
    if isinstance(x, list):
        return ["jarr", [jtree(v) for v in x]]
    if x is None:
        return ["invalid"]
    if isinstance(x, bool):
        return ["bool", x]
    if isinstance(x, (int, float)):
        return ["float64", str(f64bits(float(x)))]
    return ["string", x]

"""Library operation histories: build / duplicate build / remove / re-build / instantiate / store / load / execute."""
import json
from grl import *
from rng import Rng

NAMES = ["A", "B", "C", "D"]


def V(s): return atom(var(path(s)))


def simple_rule(rng, name):
    """a rule with an observable effect keyed by its name and a condition on F.I / F.J"""
    k = rng.range(0, 3)
    cond = rng.choice([bin_("<", V("F.I"), atom(cint(k + 1))), bin_("==", V("F.J"), atom(cint(k % 2))),
                       bin_("&&", bin_(">=", V("F.I"), atom(cint(0))), bin_("<", V("F.J"), atom(cint(k + 1)))),
                       par(bin_("!=", V("F.I"), atom(cint(k))), neg=rng.chance(0.3)),
                       bin_("==", atom(meth(var(root("F")), "Heavy", atom(cint(k)))), atom(cint(2 * k + 1)))])
    field = {"A": "F.U8", "B": "F.U16", "C": "F.U32", "D": "F.U64"}[name]
    acts = [assign("+=", path(field), atom(cint(rng.range(1, 3)))), assign("=", path("F.I"), bin_("+", V("F.I"), atom(cint(1))))]
    if rng.chance(0.4):
        acts.append(stmt(call("Retract", atom(cstr(name)))))
    if rng.chance(0.15):
        acts.append(stmt(call("Complete")))
    return mkrule(name, normalize(cond), [norm_action(a) for a in acts], sal=rng.choice([0, 0, 1, 5, -1]), desc=rng.choice([None, "d", "text of " + name]))


BROKEN = [
    "rule X { when F.I == 1 then F.I = 2 }",               # missing ;
    "rule X { when F.I == then F.I = 2; }",                 # missing operand
    "rule X { when F.I == 1 && (F.J < 2 then F.I = 2; }",   # unbalanced bracket
    "rule X \"d\" salience { when true then F.I = 2; }",    # missing salience value
    "rule X { when F.I # 1 then F.I = 2; }",                # illegal character
    "rule { when true then F.I = 2; }",                     # missing name
]


def facts(rng):
    return [["F", fact(I=rng.range(0, 2), J=rng.range(0, 1), A=[0, 1, 2], M={"a": 1}, P=sub())]]


def scenario(rng, sid, maxlen=10):
    pr = Printer()
    ops = []
    state = {}          # (lib, kb) -> set of active names (expected, for generation only)
    insts = []
    stored = []
    dirty = set()       # kbs that saw a rejected text: working memory holds garbage
    n = rng.range(4, maxlen)
    kbs = ["K1"] if rng.chance(0.6) else ["K1", "K2"]
    ninst = 0
    for step in range(n):
        kb = rng.choice(kbs)
        lib = "L"
        active = state.setdefault((lib, kb), set())
        kind = rng.weighted([("build", 4 if len(active) < 4 else 1), ("dup", 2 if active else 0), ("bad", 1), ("remove", 2 if active else 0),
                             ("inst", 3 if active else 0), ("call", 4 if insts else 0), ("iremove", 1 if insts else 0),
                             ("store", 2 if active else 0), ("load", 2 if stored else 0), ("info", 1)])
        if kind == "build":
            names = [x for x in NAMES if x not in active]
            names = rng.shuffle(names)[:rng.range(1, min(2, len(names)))] if names else []
            if not names:
                continue
            rules = [simple_rule(rng, x) for x in names]
            ops.append({"op": "build", "lib": lib, "kb": kb, "wm": kb not in dirty, "text": pr.doc(rules), "rules": rules, "ftext": []})
            active |= set(names)
        elif kind == "dup":
            # a grammatical resource re-using an active name (alone, or next to a new rule)
            d = rng.choice(sorted(active))
            rules = [simple_rule(rng, d)]
            fresh = [x for x in NAMES if x not in active]
            if fresh and rng.chance(0.5):
                extra = simple_rule(rng, fresh[0])
                rules = [extra] + rules if rng.chance(0.5) else rules + [extra]
                active.add(fresh[0])
            if rng.chance(0.2):
                rules = rules + [simple_rule(rng, rules[0]["name"])]   # duplicate inside the resource
            ops.append({"op": "build", "lib": lib, "kb": kb, "wm": kb not in dirty, "text": pr.doc(rules), "rules": rules, "ftext": [], "expect": "dup"})
        elif kind == "bad":
            ops.append({"op": "build", "lib": lib, "kb": kb, "wm": False, "text": rng.choice(BROKEN), "rules": None, "expect": "syntax"})
            dirty.add(kb)
        elif kind == "remove":
            d = rng.choice(sorted(active))
            via = rng.chance(0.4)
            ops.append({"op": "remove", "lib": lib, "kb": kb, "rule": d, "viaKb": via})
            active.discard(d)
        elif kind == "inst":
            ninst += 1
            name = "i%d" % ninst
            ops.append({"op": "inst", "lib": lib, "kb": kb, "as": name})
            insts.append(name)
        elif kind == "call":
            i = rng.choice(insts)
            if rng.chance(0.4):
                ops.append({"op": "fetch", "inst": i, "facts": facts(rng), "retErr": False})
            else:
                ops.append({"op": "exec", "inst": i, "facts": facts(rng), "max": rng.choice([1, 3, 6]), "retErr": False, "cancelAt": None, "listeners": 0})
        elif kind == "iremove":
            i = rng.choice(insts)
            ops.append({"op": "remove", "inst": i, "rule": rng.choice(NAMES)})
        elif kind == "store":
            h = "s%d" % len(stored)
            ops.append({"op": "store", "lib": lib, "kb": kb, "as": h})
            stored.append((h, kb, set(active)))
        elif kind == "load":
            h, skb, sact = rng.choice(stored)
            ow = rng.chance(0.6)
            tlib = rng.choice(["L", "L", "L2"])
            ops.append({"op": "load", "lib": tlib, "from": h, "overwrite": ow})
            if tlib == "L" and ow:
                state[("L", skb)] = set(sact)
            if tlib == "L2":
                # instantiate and run what was loaded elsewhere
                ninst += 1
                name = "i%d" % ninst
                ops.append({"op": "inst", "lib": "L2", "kb": skb, "as": name})
                ops.append({"op": "fetch", "inst": name, "facts": facts(rng), "retErr": False})
        else:
            ops.append({"op": "info", "lib": lib, "kb": kb})
    # closing round: instantiate every knowledge base and look at what matches
    for kb in kbs:
        ninst += 1
        ops.append({"op": "inst", "lib": "L", "kb": kb, "as": "z%d" % ninst})
        ops.append({"op": "fetch", "inst": "z%d" % ninst, "facts": facts(rng), "retErr": False})
        ops.append({"op": "exec", "inst": "z%d" % ninst, "facts": facts(rng), "max": 5, "retErr": False, "cancelAt": None, "listeners": 0})
        ops.append({"op": "info", "lib": "L", "kb": kb})
    return {"id": sid, "profile": "stable", "ops": ops}


if __name__ == "__main__":
    import sys
    rng = Rng(int(sys.argv[1]) if len(sys.argv) > 1 else 1)
    for i in range(int(sys.argv[2]) if len(sys.argv) > 2 else 5):
        print(json.dumps(scenario(rng.fork(), "lib-%d" % i)))

"""Library operation histories: build / duplicate build / remove / re-build / instantiate / store / load / execute."""
import json
from grl import *
from rng import Rng

NAMES = ["A", "B", "C", "D"]


def V(s): return atom(var(path(s)))


def simple_rule(rng, name):
    """a rule with an observable effect keyed by its name and a condition on F.I / F.J"""
    k = rng.range(0, 3)
    cond = rng.choice([bin_("<", V("F.I"), atom(cint(k + 1))), bin_("==", V("F.J"), atom(cint(k % 2))),
                       bin_("&&", bin_(">=", V("F.I"), atom(cint(0))), bin_("<", V("F.J"), atom(cint(k + 1)))),
                       par(bin_("!=", V("F.I"), atom(cint(k))), neg=rng.chance(0.3)),
                       bin_("==", atom(meth(var(root("F")), "Heavy", atom(cint(k)))), atom(cint(2 * k + 1)))])
    field = {"A": "F.U8", "B": "F.U16", "C": "F.U32", "D": "F.U64"}[name]
    acts = [assign("+=", path(field), atom(cint(rng.range(1, 3)))), assign("=", path("F.I"), bin_("+", V("F.I"), atom(cint(1))))]
    shape = rng.weighted([("plain", 6), ("selector", 2), ("forget", 2), ("rhs", 2)])
    if shape == "selector":
        # an index expression that also occurs outside the selector (shared node), varying between facts
        sel_ = atom(var(idx(path("F.A"), V("F.J"))))
        cond = bin_("&&", bin_(">=", V("F.J"), atom(cint(0))), bin_(rng.choice(["==", "!=", "<"]), sel_, atom(cint(k % 3))))
        acts.append(assign("=", path("F.In"), sel_))
    elif shape == "forget":
        # a condition read through a method; the change is announced by the text of the call
        cond = bin_("<", atom(meth(var(root("F")), "GetI")), atom(cint(k + 2)))
        # (the call statement itself is remembered like any other call: it has to be forgotten to run again; whether
        # `Changed("F.I")` happens to do that — "F.Inc()" contains the text "F.I" — depends on whether some rule of the
        # knowledge base mentions the variable F.I, so the rule announces it explicitly)
        acts = [assign("+=", path(field), atom(cint(1))), stmt(meth(var(root("F")), "Inc")),
                stmt(call("Forget", atom(cstr("F.Inc()")))),
                stmt(call(rng.choice(["Forget", "Changed"]), atom(cstr("F.GetI()")))),
                stmt(call("Changed", atom(cstr("F.I"))))]
    elif shape == "rhs":
        # the whole right-hand side is also an operand of the condition
        e = bin_("+", V("F.J"), bin_("*", V("F.I"), atom(cint(2))))
        cond = bin_("<", V("F.I16"), e)
        acts.append(assign("=", path("F.I16"), e))
    if rng.chance(0.4):
        acts.append(stmt(call("Retract", atom(cstr(name)))))
    if rng.chance(0.15):
        acts.append(stmt(call("Complete")))
    return mkrule(name, normalize(cond), [norm_action(a) for a in acts], sal=rng.choice([0, 0, 1, 5, -1]), desc=rng.choice([None, "d", "text of " + name]))


BROKEN = [
    "rule X { when F.I == 1 then F.I = 2 }",               # missing ;
    "rule X { when F.I == then F.I = 2; }",                 # missing operand
    "rule X { when F.I == 1 && (F.J < 2 then F.I = 2; }",   # unbalanced bracket
    "rule X \"d\" salience { when true then F.I = 2; }",    # missing salience value
    "rule X { when F.I # 1 then F.I = 2; }",                # illegal character
    "rule { when true then F.I = 2; }",                     # missing name
]


def facts(rng):
    return [["F", fact(I=rng.range(0, 2), J=rng.range(0, 1), A=[0, 1, 2], M={"a": 1}, P=sub())]]


def scenario(rng, sid, maxlen=10, focus=None):
    pr = Printer()
    ops = []
    state = {}          # (lib, kb) -> set of active names (expected, for generation only)
    insts = []
    stored = []
    dirty = set()       # kbs that saw a rejected text: working memory holds garbage
    loaded_into = {}    # (lib, kb) -> handle of the stream whose load produced the knowledge base there
    sal = {}            # (lib, kb) -> {name: salience} of the active rules (as the generator expects them)
    n = rng.range(4, maxlen)
    kbs = ["K1"] if rng.chance(0.6) else ["K1", "K2"]
    ninst = 0
    for step in range(n):
        kb = rng.choice(kbs)
        lib = "L"
        active = state.setdefault((lib, kb), set())
        forced = {"C12": ["build", "build", "store", "load"], "C16": ["build", "remove", "build", "remove"]}.get(focus, [])
        kind = forced[step] if step < len(forced) and rng.chance(0.8) and (forced[step] == "build" or active) and (forced[step] != "load" or stored) else \
            rng.weighted([("build", 4 if len(active) < 4 else 1), ("dup", 2 if active else 0), ("bad", 1), ("remove", 2 if active else 0),
                             ("inst", 3 if active else 0), ("call", 4 if insts else 0), ("iremove", 1 if insts else 0),
                             ("store", 3 if active else 0), ("load", 3 if stored else 0), ("info", 1)])
        if kind == "build":
            names = [x for x in NAMES if x not in active]
            names = rng.shuffle(names)[:rng.range(1, min(2, len(names)))] if names else []
            if not names:
                continue
            rules = [simple_rule(rng, x) for x in names]
            ops.append({"op": "build", "lib": lib, "kb": kb, "wm": kb not in dirty, "text": pr.doc(rules), "rules": rules, "ftext": []})
            active |= set(names)
            for rr in rules:
                sal.setdefault((lib, kb), {})[rr["name"]] = rr["sal"]
        elif kind == "dup":
            # a grammatical resource re-using an active name (alone, or next to a new rule)
            d = rng.choice(sorted(active))
            rules = [simple_rule(rng, d)]
            fresh = [x for x in NAMES if x not in active]
            if fresh and rng.chance(0.5):
                extra = simple_rule(rng, fresh[0])
                rules = [extra] + rules if rng.chance(0.5) else rules + [extra]
                active.add(fresh[0])
                sal.setdefault((lib, kb), {})[fresh[0]] = extra["sal"]
            if rng.chance(0.2):
                rules = rules + [simple_rule(rng, rules[0]["name"])]   # duplicate inside the resource
            ops.append({"op": "build", "lib": lib, "kb": kb, "wm": kb not in dirty, "text": pr.doc(rules), "rules": rules, "ftext": [], "expect": "dup"})
        elif kind == "bad":
            ops.append({"op": "build", "lib": lib, "kb": kb, "wm": False, "text": rng.choice(BROKEN), "rules": None, "expect": "syntax"})
            dirty.add(kb)
        elif kind == "remove":
            d = rng.choice(sorted(active))
            via = rng.chance(0.4)
            ops.append({"op": "remove", "lib": lib, "kb": kb, "rule": d, "viaKb": via})
            active.discard(d)
        elif kind == "inst":
            ninst += 1
            name = "i%d" % ninst
            ops.append({"op": "inst", "lib": lib, "kb": kb, "as": name})
            insts.append(name)
        elif kind == "call":
            i = rng.choice(insts)
            if rng.chance(0.4):
                ops.append({"op": "fetch", "inst": i, "facts": facts(rng), "retErr": False})
            else:
                ops.append({"op": "exec", "inst": i, "facts": facts(rng), "max": rng.choice([1, 3, 6]), "retErr": False, "cancelAt": None, "listeners": 0})
        elif kind == "iremove":
            i = rng.choice(insts)
            ops.append({"op": "remove", "inst": i, "rule": rng.choice(NAMES)})
        elif kind == "store":
            h = "s%d" % len(stored)
            ops.append({"op": "store", "lib": lib, "kb": kb, "as": h})
            # an instance of the stored knowledge base as it is now: the twin of what a load of the stream yields
            ops.append({"op": "inst", "lib": lib, "kb": kb, "as": "o" + h})
            sl = [sal.get((lib, kb), {}).get(x) for x in active]
            stored.append((h, kb, set(active), len(set(sl)) == len(sl), dict(sal.get((lib, kb), {}))))
        elif kind == "load":
            h, skb, sact, det, ssal = rng.choice(stored)
            ow = rng.chance(0.6)
            tlib = rng.choice(["L", "L", "L2"])
            ops.append({"op": "load", "lib": tlib, "from": h, "overwrite": ow})
            took = ow or (tlib, skb) not in loaded_into and (tlib == "L2" or ("L", skb) not in state)
            if tlib == "L" and ow:
                state[("L", skb)] = set(sact)
                sal[("L", skb)] = dict(ssal)
            if took:
                loaded_into[(tlib, skb)] = h
            if tlib == "L2" or (took and rng.chance(0.5)):
                # instantiate and run what was loaded
                ninst += 1
                name = "i%d" % ninst
                ops.append({"op": "inst", "lib": tlib, "kb": skb, "as": name})
                ops.append({"op": "fetch", "inst": name, "facts": facts(rng), "retErr": False})
                if took:
                    # the loaded knowledge base and the stored one on the same facts (same behaviour expected; the two
                    # real runs are compared directly when no two active rules share a salience)
                    fx = facts(rng)
                    mx = rng.choice([3, 6])
                    tw = "%s@%d" % (h, len(ops))
                    for who in (name, "o" + h):
                        ops.append({"op": "exec", "inst": who, "facts": fx, "max": mx, "retErr": False, "cancelAt": None, "listeners": 0,
                                    "twin": tw, "det": det})
                if tlib == "L":
                    insts.append(name)
        else:
            ops.append({"op": "info", "lib": lib, "kb": kb})
    # closing round: instantiate every knowledge base and look at what matches
    for kb in kbs:
        ninst += 1
        ops.append({"op": "inst", "lib": "L", "kb": kb, "as": "z%d" % ninst})
        ops.append({"op": "fetch", "inst": "z%d" % ninst, "facts": facts(rng), "retErr": False})
        ops.append({"op": "exec", "inst": "z%d" % ninst, "facts": facts(rng), "max": 5, "retErr": False, "cancelAt": None, "listeners": 0})
        ops.append({"op": "info", "lib": "L", "kb": kb})
    sc = {"id": sid, "profile": "stable", "ops": ops}
    if any("GetI()" in (o.get("text") or "") for o in ops):
        # a condition reads F.I through a method while other rules assign F.I without announcing it: outside the
        # documented contract, so the from-scratch semantics is no oracle here (model correspondence still is)
        sc["no_oracle"] = True
    return sc


if __name__ == "__main__":
    import sys
    rng = Rng(int(sys.argv[1]) if len(sys.argv) > 1 else 1)
    for i in range(int(sys.argv[2]) if len(sys.argv) > 2 else 5):
        print(json.dumps(scenario(rng.fork(), "lib-%d" % i)))

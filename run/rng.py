MASK = (1 << 64) - 1


class Rng:
    """splitmix64; every random choice of the framework derives from one state"""

    def __init__(self, seed):
        # scramble the seed so that neighbouring seeds give unrelated streams
        z = (seed + 0x632BE59BD9B4E019) & MASK
        z = ((z ^ (z >> 30)) * 0xBF58476D1CE4E5B9) & MASK
        z = ((z ^ (z >> 27)) * 0x94D049BB133111EB) & MASK
        self.s = z ^ (z >> 31)

    def next(self):
        self.s = (self.s + 0x9E3779B97F4A7C15) & MASK
        z = self.s
        z = ((z ^ (z >> 30)) * 0xBF58476D1CE4E5B9) & MASK
        z = ((z ^ (z >> 27)) * 0x94D049BB133111EB) & MASK
        return z ^ (z >> 31)

    def below(self, n):
        return self.next() % n if n > 0 else 0

    def range(self, lo, hi):
        """inclusive"""
        return lo + self.below(hi - lo + 1)

    def choice(self, xs):
        return xs[self.below(len(xs))]

    def chance(self, p):
        return (self.next() >> 11) / float(1 << 53) < p

    def weighted(self, pairs):
        tot = sum(w for _, w in pairs)
        x = self.below(tot)
        for v, w in pairs:
            if x < w:
                return v
            x -= w
        return pairs[-1][0]

    def shuffle(self, xs):
        xs = list(xs)
        for i in range(len(xs) - 1, 0, -1):
            j = self.below(i + 1)
            xs[i], xs[j] = xs[j], xs[i]
        return xs

    def fork(self):
        return Rng(self.next())

#!/usr/bin/env python3
"""Hand-minimised witnesses (DESIGN.md §1.3 / §6) as corpus scenarios; run first by every check that owns them.
Regenerate with: python3 run/mkcorpus.py"""
import json
import os
import sys

sys.path.insert(0, os.path.dirname(os.path.abspath(__file__)))
from grl import *

ROOT = os.path.dirname(os.path.dirname(os.path.abspath(__file__)))


def V(s):
    return atom(var(path(s)))


def I(n):
    return atom(cint(n))


def std_facts(**kw):
    f = dict(I=0, J=0, A=[0, 0, 0], M={"a": 0}, P=sub(N=0), AP=[sub(), sub()], MS={"a": ""}, MI={1: 0},
             AS=["x", "y"], AF=[0.5, 1.5], AA=[[0, 0], [0, 0]])
    f.update(kw.pop("F", {}))
    st = [["F", fact(**f)], ["N", leaf("int64", kw.pop("N", 0))], ["K", leaf("int64", 0)],
          ["J", jtree(kw.pop("J", {"n": 0, "o": {"n": 0}, "a": [0, 1]}))]]
    return st


def scenario(sid, rules, execs, profile="wild"):
    rules = [dict(r, when=normalize(r["when"]), then=[norm_action(a) for a in r["then"]]) for r in rules]
    ops = [{"op": "build", "lib": "L", "kb": "K", "wm": True, "text": Printer().doc(rules), "rules": rules,
            "ftext": [[b, t] for b, t in collect_ftext(rules, {}).items()]},
           {"op": "inst", "lib": "L", "kb": "K", "as": "i"}] + execs
    return {"id": sid, "profile": profile, "ops": ops}


def ex(facts, max=6, **kw):
    d = {"op": "exec", "inst": "i", "facts": facts, "max": max, "retErr": False, "cancelAt": None, "listeners": 1}
    d.update(kw)
    return d


def fetch(facts, **kw):
    d = {"op": "fetch", "inst": "i", "facts": facts, "retErr": False}
    d.update(kw)
    return d


W = {}

# F1: assignment to a top-level variable does not invalidate
W["F1-toplevel"] = (["C01", "C02", "C04", "C06"], scenario("F1-toplevel", [
    mkrule("R", bin_("<", V("N"), I(2)), [assign("=", root("N"), bin_("+", V("N"), I(1)))])],
    [ex(std_facts(N=0))]))

# F2: element write vs. read through the same container with another selector text / Len()
W["F2-dynidx-read"] = (["C01", "C02", "C06"], scenario("F2-dynidx-read", [
    mkrule("R", bin_("==", atom(var(idx(path("F.A"), V("F.J")))), I(0)),
           [assign("=", idx(path("F.A"), I(0)), I(1))])],
    [ex(std_facts())]))
W["F2-dynidx-write"] = (["C01", "C02", "C06"], scenario("F2-dynidx-write", [
    mkrule("R", bin_("==", atom(var(idx(path("F.A"), I(0)))), I(0)),
           [assign("=", idx(path("F.A"), V("F.J")), I(1))])],
    [ex(std_facts())]))
W["F2-maplen"] = (["C01", "C02", "C06"], scenario("F2-maplen", [
    mkrule("R", bin_("==", atom(meth(var(path("F.M")), "Len")), I(1)),
           [assign("=", idx(path("F.M"), atom(cstr("k"))), I(1))])],
    [ex(std_facts())]))
W["F2-json-sel-vs-field"] = (["C01", "C02", "C06"], scenario("F2-json-sel-vs-field", [
    mkrule("R", bin_("==", V("J.n"), I(0)),
           [assign("=", idx(root("J"), atom(cstr("n"))), I(1))])],
    [ex(std_facts())]))

W["F2-elem-field"] = (["C01", "C02", "C06"], scenario("F2-elem-field", [
    mkrule("R", bin_("==", atom(var(fld(idx(path("F.AP"), V("F.J")), "N"))), I(0)),
           [assign("=", fld(idx(path("F.AP"), I(0)), "N"), I(1))])],
    [ex(std_facts())]))

# F5: FetchMatchingRules keeps retractions of an earlier Execute
W["F5-fetch-after-retract"] = (["C08", "C11"], scenario("F5-fetch-after-retract", [
    mkrule("R", bin_("==", V("F.I"), I(0)), [stmt(call("Retract", atom(cstr("R"))))])],
    [ex(std_facts()), fetch(std_facts())]))


def main():
    for name, (props_, sc) in W.items():
        for p in props_:
            d = os.path.join(ROOT, "corpus", p)
            os.makedirs(d, exist_ok=True)
            with open(os.path.join(d, name + ".json"), "w") as f:
                json.dump(sc, f)
    print("wrote", len(W), "witnesses")


if __name__ == "__main__":
    main()

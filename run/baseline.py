#!/usr/bin/env python3
"""Run the repository's test suite (guard off) and compare with /root/.vp/BASELINE.json's stable set."""
import json, os, subprocess, sys
base = json.load(open("/root/.vp/BASELINE.json"))
want = set(base["stable_pass"])
env = dict(os.environ, GOFLAGS="-mod=mod", GOPROXY="off")
p = subprocess.run(["go", "test", "-json", "-vet=off", "-count=1", "-timeout", "25m", "./..."], cwd="/repo", env=env,
                   stdout=subprocess.PIPE, stderr=subprocess.DEVNULL)
passed = set()
for ln in p.stdout.decode(errors="replace").split("\n"):
    try:
        e = json.loads(ln)
    except Exception:
        continue
    if e.get("Action") == "pass" and e.get("Test"):
        passed.add("%s::%s" % (e["Package"], e["Test"]))
missing = sorted(want - passed)
print("baseline stable tests: %d, passed now: %d, missing: %d" % (len(want), len(want & passed), len(missing)))
for m in missing:
    print("  MISSING", m)
sys.exit(1 if missing else 0)

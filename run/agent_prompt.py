import sys
pid=sys.argv[1]
prop=open('/tmp/prop-%s.txt'%pid).read()
print(f"""You are helping to evaluate a verification framework for the Go library hyperjumptech/grule-rule-engine (a forward-chaining rule engine). You have your own scratch git worktree of the library at /tmp/wt-{pid} (detached HEAD). Work ONLY inside /tmp/wt-{pid} and /tmp/out-{pid} (create the latter). Never read or write /repo or /verif, and do not look for other checkouts.

This is the semantic property under study:

---
{prop}---

Your task: produce TWO different, independent source changes (mutations) to the library, each of which BREAKS this property while the library still compiles and its existing test suite still passes. Prefer subtle, realistic bugs a maintainer could plausibly introduce (an off-by-one, a dropped or misplaced reset/invalidations call, a wrong comparison, a missed branch, a stale field after clone, two cooperating sites that each look fine alone...). IMPORTANT: each change must need something specific to manifest — a multi-step sequence of operations, a particular kind of rule/operand/path shape, an unusual input, a particular cycle or interleaving — NOT something that any ordinary use of the engine would expose at once (ordinary use must still work, and the existing tests must still pass).

For each mutation k in {{1,2}}:
1. Start from a clean tree (`git -C /tmp/wt-{pid} checkout -- . && git -C /tmp/wt-{pid} clean -fdq`).
2. Make the change to non-test .go files of the library.
3. Write a demonstration: a Go test file (package in the worktree, e.g. /tmp/wt-{pid}/engine/zz_demo{{k}}_test.go, using only the library's public API and testify if you like) that FAILS with your change and PASSES without it. The demonstration should observe the property through public behaviour (results of Execute / FetchMatchingRules, fact values, listener callbacks, errors...).
4. Verify all of it yourself:
   - `cd /tmp/wt-{pid} && GOFLAGS=-mod=mod GOPROXY=off go build ./...` succeeds;
   - the existing tests pass with the change: `GOFLAGS=-mod=mod GOPROXY=off go test -vet=off -count=1 ./ast/... ./engine/... ./builder/... ./antlr/... ./model/... ./examples/...` and `go test -vet=off -count=1 -run 'TestEvaluate|TestValue|TestJSON|TestJson|TestParse|TestGet|TestSet|TestIs|TestInvoke|TestString|TestNewJSON|TestNewBytes|TestEmbedded|TestFile' ./pkg/...` (two tests in ./pkg, TestGitResource and TestNewURLResource, need the network and fail/panic offline even without any change — ignore those two). The first `go build`/`go test` is slow (minutes); later ones are fast. There is no network: do not try to download anything.
   - the demonstration fails with the change and passes when the change is reverted (keep the demo file, `git stash`/re-apply or use `git diff > patch; git checkout; ...`).
5. Save into /tmp/out-{pid}/m{{k}}/: `patch.diff` (output of `git -C /tmp/wt-{pid} diff` for the non-test source change ONLY, it must apply with `git apply` to a clean tree), the demonstration test file (copy), and `meta.json` with keys: "property" ("{pid}"), "summary" (what the change does), "needs" (what specific input/sequence/shape is needed for the bug to manifest), "demo" (file name and which package directory it goes to), "ran" (the commands you ran and their outcomes).
Finally leave the worktree clean (checkout + clean). Reply with a brief summary of the two mutations (files touched, what is needed to trigger them). Do not write anything else anywhere.""")

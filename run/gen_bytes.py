"""Arbitrary and structure-aware mutated inputs for the four loaders (C20)."""
import json
import struct
from rng import Rng

BOUNDARY = [0, 1, 2, 7, 8, 255, 256, 65535, 65536, 2 ** 31 - 1, 2 ** 31, 2 ** 32 - 1, 2 ** 32, 2 ** 40, 2 ** 53, 2 ** 62, 2 ** 63 - 1, 2 ** 63,
            2 ** 64 - 2, 2 ** 64 - 1]
BIGNUMS = [b"0", b"-1", b"2147483647", b"2147483648", b"-2147483649", b"4294967296", b"9223372036854775807", b"9223372036854775808",
           b"-9223372036854775809", b"18446744073709551616", b"99999999999999999999999999999999", b"1e308", b"1e309", b"1e-400", b"0x7fffffffffffffff",
           b"0xffffffffffffffffff", b"0777777777777777777777777", b"1e99999999", b"0x1p99999", b"-0", b"00", b"1.0e+", b"0x"]


DEPTHS = [10, 50, 150]          # nesting bombs (the thorough tier goes deeper)


def shape(data, kind="grl"):
    if kind == "jsonrule":
        return shape_json(data)
    return shape_grl(data)


def shape_json(data):
    """(max bracket nesting, longest operand list) of a JSON text"""
    depth = best = longest = 0
    counts = []
    instr = esc = False
    for b in data:
        if instr:
            if esc:
                esc = False
            elif b == 0x5c:
                esc = True
            elif b == 0x22:
                instr = False
            continue
        if b == 0x22:
            instr = True
        elif b in b"[{":
            depth += 1
            best = max(best, depth)
            counts.append(0)
        elif b in b"]}":
            depth = max(0, depth - 1)
            if counts:
                counts.pop()
        elif b == 0x2c and counts:
            counts[-1] += 1
            longest = max(longest, counts[-1])
    return best, longest


def shape_grl(data):
    """(max bracket nesting, longest run of operator/member/selector repetitions) — the structure behind the known
    super-linear cost of the GRL front end"""
    depth = best = 0
    for b in data:
        if b in b"([{":
            depth += 1
            best = max(best, depth)
        elif b in b")]}":
            depth = max(0, depth - 1)
    # longest chain: count of '.', '[', and binary operator characters between two `;` / `{` / `}` / `,`-free stretches
    run = longest = 0
    for b in data:
        if b in b";{}":
            run = 0
        elif b in b".[+-*/%&|<>=!":
            run += 1
            longest = max(longest, run)
    return best, longest


SALIENCES = [b"2147483647", b"2147483648", b"-2147483648", b"-2147483649", b"9223372036854775807", b"-9223372036854775808", b"9223372036854775808",
             b"-9223372036854775809", b"0x7fffffff", b"0x80000000", b"-0x80000000", b"-0x80000001", b"-0x8000000000000000", b"0x8000000000000000",
             b"017777777777", b"-020000000000", b"-01000000000000000000000", b"99999999999999999999", b"-0", b"00", b"1.5", b"1e3", b"\"1\"", b""]


def random_bytes(rng, n):
    return bytes(rng.below(256) for _ in range(n))


def mutate(rng, data, kind, others):
    """one structure-aware mutation of a valid input"""
    data = bytearray(data)
    n = len(data)
    if kind in ("grl", "jsonrule") and rng.chance(0.08):
        # the salience clause with a boundary value (GRL: after the keyword; JSON: the "salience" member)
        import re
        txt = bytes(data)
        pat = re.compile(rb'(?i)(salience\s+)(-?\s*[0-9][0-9a-fA-FxX]*)') if kind == "grl" else re.compile(rb'("salience"\s*:\s*)(-?[0-9]+)')
        ms = list(pat.finditer(txt))
        v = rng.choice(SALIENCES)
        if ms:
            mm = rng.choice(ms)
            return txt[:mm.start(2)] + v + txt[mm.end(2):], "salience"
        if kind == "grl":
            mm = re.search(rb'(?i)rule\s+\w+', txt)
            if mm:
                return txt[:mm.end()] + b" salience " + v + txt[mm.end():], "salience"
    m = rng.weighted([("bitflip", 4), ("byte", 3), ("insert", 2), ("delete", 2), ("truncate", 3), ("splice", 2), ("number", 3),
                      ("length", 5 if kind == "grb" else 0), ("dup-range", 1), ("nest", 2 if kind != "grb" else 0)])
    if n == 0:
        return bytes(random_bytes(rng, rng.range(1, 8))), "random"
    i = rng.below(n)
    if m == "bitflip":
        for _ in range(rng.range(1, 4)):
            j = rng.below(n)
            data[j] ^= 1 << rng.below(8)
        return bytes(data), m
    if m == "byte":
        data[i] = rng.choice([0, 0xff, 0x7f, 0x80, 0x22, 0x27, 0x5c, 0x7b, 0x7d, 0x5b, 0x5d, 0x28, 0x29, 0x0a, rng.below(256)])
        return bytes(data), m
    if m == "insert":
        ins = rng.choice([b"\x00", b"\xff", b"\"", b"'", b"\\", b"{", b"}", b"[", b"]", b"(", b")", b"/*", b"//", b"\xc3", b"\xf0\x9f", random_bytes(rng, rng.range(1, 6))])
        return bytes(data[:i] + ins + data[i:]), m
    if m == "delete":
        j = min(n, i + rng.range(1, 8))
        return bytes(data[:i] + data[j:]), m
    if m == "truncate":
        return bytes(data[:i]), m
    if m == "splice":
        o = rng.choice(others) if others else bytes(data)
        j = rng.below(max(1, len(o)))
        return bytes(data[:i]) + bytes(o[j:]), m
    if m == "dup-range":
        j = min(n, i + rng.range(1, 64))
        return bytes(data[:j] + data[i:j] * rng.range(1, 20) + data[j:]), m
    if m == "number":
        # replace a run of digits (text formats) or 8 bytes (binary) by a boundary number
        if kind == "grb":
            v = rng.choice(BOUNDARY)
            return bytes(data[:i] + struct.pack("<Q", v) + data[i + 8:]), m
        digits = [k for k in range(n) if 0x30 <= data[k] <= 0x39]
        if digits:
            k = rng.choice(digits)
            e = k
            while e < n and 0x30 <= data[e] <= 0x39:
                e += 1
            return bytes(data[:k] + rng.choice(BIGNUMS) + data[e:]), m
        return bytes(data[:i] + rng.choice(BIGNUMS) + data[i:]), m
    if m == "length":
        # overwrite something that looks like a length/count field: 8 bytes whose upper 5 bytes are zero
        cands = [k for k in range(0, n - 8) if data[k + 3:k + 8] == b"\x00\x00\x00\x00\x00"]
        k = rng.choice(cands) if cands else i
        old = struct.unpack("<Q", bytes(data[k:k + 8]).ljust(8, b"\0"))[0]
        v = rng.choice(BOUNDARY + [old + 1, max(0, old - 1), old * 2, n, n + 1, old + 65536, old + 65537])
        return bytes(data[:k] + struct.pack("<Q", v % 2 ** 64) + data[k + 8:]), m
    # nest: a nesting bomb spliced in
    depth = rng.choice(DEPTHS)
    if kind == "grl":
        bomb = rng.choice([b"(" * depth + b"1" + b")" * depth, b"!(" * depth + b"true" + b")" * depth, b"F" + b"[0]" * depth, b"F" + b".A" * depth,
                           b"F.G(" * depth + b")" * depth, b"1" + b" + 1" * depth, b"(" * depth, b"/*" * depth, b"\"" + b"\\\"" * depth,
                           # selectors chained on a call result: short enough not to count as a "deep or long expression",
                           # and exponential while a selector atom wrote its receiver twice into its snapshot (fixed: F20)
                           b"F.G()" + b"[0]" * 18, b"G()" + b"[1]" * 17 + b".X"])
    else:
        bomb = rng.choice([b"[" * depth + b"]" * depth, b"{\"plus\":[1," * depth + b"1" + b"]}" * depth, b"{\"a\":" * depth + b"1" + b"}" * depth,
                           b"[" * depth, b"{\"and\":[{\"eq\":[1,1]}," * min(depth, 2000) + b"{\"eq\":[1,1]}" + b"]}" * min(depth, 2000), b"\"" + b"\\u0041" * depth + b"\""])
    return bytes(data[:i] + bomb + data[i:]), m


def cap(data, limit=65536):
    return data[:limit]

#!/usr/bin/env python3
"""Check driver: python3 run/check.py --property Cxx --tier quick|thorough [--replay file]

Protocol (DESIGN.md §2.2): regenerate Gen/*.lean from /repo, discharge the Lean obligations of the
property, validate the model against the real engine (correspondence), evaluate the property oracle
(real engine vs. from-scratch semantics / monitors), classify what was found against
known_findings.json, write evidence/Cxx.json, print the verdict.
"""
import argparse
import hashlib
import json
import os
import re
import sys
import time

sys.path.insert(0, os.path.dirname(os.path.abspath(__file__)))
import pipeline as pl
from rng import Rng
import props

ROOT = pl.ROOT


def load_known():
    p = os.path.join(ROOT, "known_findings.json")
    if not os.path.exists(p):
        return []
    return json.load(open(p))["findings"]


def write_replay(prop, payload):
    os.makedirs(os.path.join(ROOT, "replays"), exist_ok=True)
    h = hashlib.sha1(json.dumps(payload, sort_keys=True).encode()).hexdigest()[:12]
    path = os.path.join(ROOT, "replays", "%s-%s.json" % (prop, h))
    with open(path, "w") as f:
        json.dump(payload, f, indent=1)
    return path


ALLOWED_AXIOMS = {"propext", "Classical.choice", "Quot.sound"}
FORBIDDEN = re.compile(r"\bsorry\b|\badmit\b|^\s*axiom\s|native_decide|bv_decide|implemented_by|\bunsafe\s|maxHeartbeats\s+0")


def strip_comments(src):
    # remove /- ... -/ (nested not handled beyond one level) and -- comments
    out = []
    i = 0
    depth = 0
    while i < len(src):
        if src.startswith("/-", i):
            depth += 1
            i += 2
        elif src.startswith("-/", i) and depth > 0:
            depth -= 1
            i += 2
        elif depth > 0:
            i += 1
        elif src.startswith("--", i):
            j = src.find("\n", i)
            i = len(src) if j < 0 else j
        else:
            out.append(src[i])
            i += 1
    return "".join(out)


def source_audit():
    bad = []
    base = os.path.join(pl.LEAN_DIR, "GruleModel")
    for dp, _, fs in os.walk(base):
        for fn in fs:
            if fn.endswith(".lean"):
                p = os.path.join(dp, fn)
                txt = strip_comments(open(p).read())
                # string literals may mention the words; drop them
                txt = re.sub(r'"(?:[^"\\]|\\.)*"', '""', txt)
                for ln in txt.split("\n"):
                    if FORBIDDEN.search(ln):
                        bad.append("%s: %s" % (os.path.relpath(p, ROOT), ln.strip()[:120]))
    return bad


def obligations(prop, thorough):
    """build the property module; returns dict(ok, theorems{name:[axioms]}, log, failed[])"""
    mod = "GruleModel.Properties." + prop
    modfile = os.path.join(pl.LEAN_DIR, "GruleModel", "Properties", prop + ".lean")
    res = {"ok": True, "theorems": {}, "failed": [], "log": "", "module": mod}
    if not os.path.exists(modfile):
        res["ok"] = False
        res["failed"].append("missing module " + mod)
        return res
    # the property module and everything the driver (Main.lean) imports
    rc, log = pl.lake_build([mod, "GruleModel.Codec", "GruleModel.Gen.ArithTables", "GruleModel.Catalog", "GruleModel.Syntax.Build", "GruleModel.Json.Sem"])
    res["log"] = log[-6000:]
    if rc != 0:
        res["ok"] = False
        errs = re.findall(r"error: ([^\n]*)", log)
        res["failed"] = errs[:10] or ["lake build failed"]
        return res
    # `#print axioms X` output: "'X' depends on axioms: [a, b]" or "'X' does not depend on any axioms"
    for m in re.finditer(r"'([^']+)' depends on axioms: \[([^\]]*)\]", log):
        res["theorems"][m.group(1)] = [a.strip() for a in m.group(2).replace("\n", " ").split(",") if a.strip()]
    for m in re.finditer(r"'([^']+)' does not depend on any axioms", log):
        res["theorems"][m.group(1)] = []
    for name, axs in res["theorems"].items():
        extra = [a for a in axs if a not in ALLOWED_AXIOMS]
        if extra:
            res["ok"] = False
            res["failed"].append("%s depends on %s" % (name, extra))
    if not res["theorems"]:
        res["ok"] = False
        res["failed"].append("no theorem audited (no #print axioms output)")
    bad = source_audit()
    if bad:
        res["ok"] = False
        res["failed"].extend(bad[:10])
    if thorough and res["ok"]:
        p = pl.sh(["lake", "env", "leanchecker", mod], cwd=pl.LEAN_DIR, check=False, timeout=3600)
        res["leanchecker_rc"] = p.returncode
        if p.returncode != 0:
            res["ok"] = False
            res["failed"].append("leanchecker: " + p.stdout.decode(errors="replace")[-500:])
    return res


def main():
    ap = argparse.ArgumentParser()
    ap.add_argument("--property", required=True)
    ap.add_argument("--tier", default=os.environ.get("VERIF_TIER", "quick"))
    ap.add_argument("--replay")
    ap.add_argument("--jobs", type=int, default=int(os.environ.get("VERIF_JOBS", "14")))
    args = ap.parse_args()
    prop = args.property
    tier = args.tier if args.tier in ("quick", "thorough") else "quick"
    seed = int(os.environ.get("VERIF_SEED", "1"))
    t0 = time.time()
    spec = props.PROPS[prop]

    # 1. regenerate + build
    pl.regenerate()
    pl.build_harness()
    # 2. obligations
    ob = obligations(prop, tier == "thorough")
    # 3+4. validation and oracle
    ctx = props.Ctx(prop, tier, seed, args.jobs, ob)
    if args.replay:
        result = spec["replay"](ctx, args.replay) if "replay" in spec else props.generic_replay(ctx, args.replay)
    else:
        result = spec["run"](ctx)
    # if an obligation or the correspondence broke and no counterexample was found yet: escalate
    broken = (not ob["ok"]) or result.corr_broken
    if broken and not result.violations and not args.replay and "escalate" in spec:
        spec["escalate"](ctx, result)

    known = load_known()
    lines = []
    new_violations = []
    known_hits = {}
    for v in result.violations:
        k = props.match_known(prop, v, known)
        if k is not None:
            known_hits[k["id"]] = k
        else:
            new_violations.append(v)
    for kid, k in sorted(known_hits.items()):
        lines.append("KNOWN-FINDING: property=%s %s" % (prop, k["text"]))
    exit_code = 0
    replay_paths = []
    seen_sig = set()
    for v in new_violations:
        sig = v.get("signature", "")
        if sig in seen_sig:
            continue
        seen_sig.add(sig)
        path = write_replay(prop, {"kind": "counterexample", "property": prop, "seed": seed, **v})
        replay_paths.append(path)
        lines.append("VIOLATION property=%s replay=%s" % (prop, path))
        exit_code = 1
        if len(replay_paths) >= 5:
            break
    if broken and not new_violations:
        payload = {"kind": "broken-obligation" if not ob["ok"] else "broken-correspondence", "property": prop,
                   "module": ob.get("module"), "failed": ob["failed"], "log_excerpt": ob["log"][-3000:],
                   "correspondence": result.corr_details[:5], "gen_diff": props.gen_diff()}
        path = write_replay(prop, payload)
        lines.append("VIOLATION property=%s replay=%s no-failing-input-found" % (prop, path))
        exit_code = 1

    wall = time.time() - t0
    cov = {
        "obligations": max(1, len(ob["theorems"]) + len(ob["failed"])),
        "discharged": len([1 for n, a in ob["theorems"].items() if all(x in ALLOWED_AXIOMS for x in a)]) if ob["ok"] else
        max(0, len(ob["theorems"]) - len(ob["failed"])),
        "checker_cmd": "cd lean && lake build %s%s" % (ob.get("module"), " && lake env leanchecker " + ob.get("module") if tier == "thorough" else ""),
        "trusted_base": props.TRUSTED_BASE + spec.get("trusted_extra", []),
        "theorems": ob["theorems"],
        "obligation_failures": ob["failed"],
        "evaluations": result.evaluations,
        "distinct_nontrivial": result.distinct_nontrivial,
        "rule": result.rule,
        "samples": result.samples[:5] or [{"note": "no sample"}],
        "distribution": result.distribution,
        "correspondence": {"compared": result.corr_compared, "mismatches": len(result.corr_details),
                           "unmodelled": result.unmodelled},
        "known_findings_hit": sorted(known_hits.keys()),
        "explanation": spec.get("explanation", ""),
    }
    ev = {"property_id": prop, "tier": tier, "seed": seed, "level": "proof", "coverage": cov,
          "assumptions": spec.get("assumptions", []), "wall_s": round(wall, 2), "violations": len(new_violations) + (1 if (broken and not new_violations) else 0)}
    os.makedirs(os.path.join(ROOT, "evidence"), exist_ok=True)
    with open(os.path.join(ROOT, "evidence", prop + ".json"), "w") as f:
        json.dump(ev, f, indent=1)
    for ln in lines:
        print(ln)
    print("%s %s tier=%s seed=%d obligations=%d/%d evaluations=%d nontrivial=%d corr=%d/%d wall=%.1fs" % (
        prop, "FAIL" if exit_code else "PASS", tier, seed, cov["discharged"], cov["obligations"], result.evaluations,
        result.distinct_nontrivial, result.corr_compared - len(result.corr_details), result.corr_compared, wall))
    sys.exit(exit_code)


if __name__ == "__main__":
    main()

#!/usr/bin/env python3
"""MANIFEST.setup_cmd: build everything from files on disk (offline)."""
import os, sys, glob
sys.path.insert(0, os.path.dirname(os.path.abspath(__file__)))
import pipeline as pl

def main():
    pl.regenerate()
    pl.build_harness()
    mods = ["GruleModel.Codec", "GruleModel.Gen.ArithTables"]
    for p in sorted(glob.glob(os.path.join(pl.LEAN_DIR, "GruleModel", "Properties", "C*.lean"))):
        mods.append("GruleModel.Properties." + os.path.basename(p)[:-5])
    rc, log = pl.lake_build(mods)
    print(log[-3000:])
    # warm the driver
    out = pl.run_lean([{"id": "warm", "ops": []}], jobs=1)
    print(out)
    sys.exit(rc)

if __name__ == "__main__":
    main()

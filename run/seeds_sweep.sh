#!/bin/bash
# usage: run/seeds_sweep.sh "<seeds>" [tier] — every check on the unchanged tree for several seeds
tier=${2:-quick}
cd /verif
for s in $1; do
  for p in C01 C02 C03 C04 C05 C06 C07 C08 C09 C10 C11 C12 C13 C14 C15 C16 C17 C18 C19 C20; do
    r=$(VERIF_SEED=$s python3 run/check.py --property $p --tier $tier 2>&1 | grep -E "VIOLATION|PASS|FAIL" | cut -c1-160 | tr '\n' ' ')
    echo "seed=$s $r"
  done
done

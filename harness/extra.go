package main

import (
	"reflect"
	"sync"

	"github.com/hyperjumptech/grule-rule-engine/ast"
	"github.com/hyperjumptech/grule-rule-engine/engine"
)

var skipTypes = map[string]bool{"reflect.Value": true, "sync.Mutex": true}

// nodePointers collects the addresses of every object reachable from v through pointers, slices, maps and
// struct fields (unexported ones included), except what hangs below reflect.Value / ValueNode / DataContext
// fields (those point into the caller's facts, not into the knowledge base)
func nodePointers(v reflect.Value, seen map[uintptr]string, path string) {
	if !v.IsValid() {
		return
	}
	t := v.Type()
	if skipTypes[t.String()] {
		return
	}
	switch v.Kind() {
	case reflect.Ptr:
		if v.IsNil() {
			return
		}
		p := v.Pointer()
		if _, ok := seen[p]; ok {
			return
		}
		seen[p] = path + ":" + t.String()
		nodePointers(v.Elem(), seen, path)
	case reflect.Interface:
		if v.IsNil() {
			return
		}
		n := t.String()
		if n == "model.ValueNode" || n == "ast.IDataContext" {
			return
		}
		nodePointers(v.Elem(), seen, path)
	case reflect.Struct:
		for i := 0; i < v.NumField(); i++ {
			nodePointers(v.Field(i), seen, path+"."+t.Field(i).Name)
		}
	case reflect.Slice:
		if v.IsNil() {
			return
		}
		if v.Len() > 0 {
			seen[v.Pointer()] = path + ":" + t.String()
		}
		for i := 0; i < v.Len(); i++ {
			nodePointers(v.Index(i), seen, path)
		}
	case reflect.Map:
		if v.IsNil() {
			return
		}
		seen[v.Pointer()] = path + ":" + t.String()
		it := v.MapRange()
		for it.Next() {
			nodePointers(it.Key(), seen, path)
			nodePointers(it.Value(), seen, path)
		}
	}
}

// sharedPointers lists objects reachable from both knowledge bases
func sharedPointers(a, b *ast.KnowledgeBase) []string {
	sa := map[uintptr]string{}
	sb := map[uintptr]string{}
	nodePointers(reflect.ValueOf(a), sa, "kb")
	nodePointers(reflect.ValueOf(b), sb, "kb")
	out := []string{}
	for p, where := range sa {
		if w2, ok := sb[p]; ok {
			out = append(out, where+" / "+w2)
		}
	}
	return out
}

// concurrent: n goroutines create an instance each from one library knowledge base and execute it on their own facts
func (w *world) concurrent(op map[string]J, kbName, kbVer string) map[string]J {
	lib := w.lib(jstr(op["lib"]))
	factsList := jarr(op["factsList"])
	results := make([]J, len(factsList))
	var wg sync.WaitGroup
	start := make(chan struct{})
	for i := range factsList {
		wg.Add(1)
		go func(i int) {
			defer wg.Done()
			<-start
			r := map[string]J{}
			func() {
				defer func() {
					if rec := recover(); rec != nil {
						r["panic"] = true
					}
				}()
				kb, err := lib.NewKnowledgeBaseInstance(kbName, kbVer)
				if err != nil {
					r["instErr"] = err.Error()
					return
				}
				f, err := mkFacts(factsList[i])
				if err != nil {
					r["factsErr"] = err.Error()
					return
				}
				eng := &engine.GruleEngine{MaxCycle: uint64(op["max"].(float64))}
				runErr := eng.Execute(f.dctx, kb)
				r["out"] = classify(runErr, false)
				r["store"] = f.dump()
			}()
			results[i] = r
		}(i)
	}
	close(start)
	wg.Wait()
	return map[string]J{"results": results}
}

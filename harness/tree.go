package main

import (
	"encoding/json"
	"fmt"
	"math"
	"reflect"
	"sort"
	"strconv"
	"strings"
	"time"
)

type J = interface{}

func jarr(x J) []J {
	a, ok := x.([]J)
	if !ok {
		panic(fmt.Sprintf("expected array, got %v", x))
	}
	return a
}
func jstr(x J) string {
	s, ok := x.(string)
	if !ok {
		panic(fmt.Sprintf("expected string, got %v", x))
	}
	return s
}

func parseI(s string) int64 {
	v, err := strconv.ParseInt(s, 10, 64)
	if err != nil {
		panic(err)
	}
	return v
}
func parseU(s string) uint64 {
	v, err := strconv.ParseUint(s, 10, 64)
	if err != nil {
		panic(err)
	}
	return v
}

func mkTime(a []J) time.Time {
	delta := parseI(jstr(a[1]))
	loc := locs[int(parseI(jstr(a[2])))]
	if a[3] != nil {
		return baseTime.Add(time.Duration(delta)).In(loc)
	}
	return time.Unix(0, baseTime.UnixNano()+delta).In(loc)
}

// build sets v (settable) from the typed tree t
func build(v reflect.Value, t J) {
	a := jarr(t)
	tag := jstr(a[0])
	switch tag {
	case "int", "int8", "int16", "int32", "int64":
		setScalar(v, reflect.ValueOf(parseI(jstr(a[1]))).Convert(typeReg[tag]))
	case "uint", "uint8", "uint16", "uint32", "uint64":
		setScalar(v, reflect.ValueOf(parseU(jstr(a[1]))).Convert(typeReg[tag]))
	case "float64":
		setScalar(v, reflect.ValueOf(math.Float64frombits(parseU(jstr(a[1])))))
	case "float32":
		setScalar(v, reflect.ValueOf(float32(math.Float64frombits(parseU(jstr(a[1]))))))
	case "string":
		setScalar(v, reflect.ValueOf(jstr(a[1])))
	case "bool":
		setScalar(v, reflect.ValueOf(a[1].(bool)))
	case "time":
		setScalar(v, reflect.ValueOf(mkTime(a)))
	case "struct":
		for _, f := range jarr(a[2]) {
			p := jarr(f)
			fv := v.FieldByName(jstr(p[0]))
			if !fv.IsValid() {
				panic("no field " + jstr(p[0]))
			}
			build(fv, p[1])
		}
	case "ptr":
		if a[2] == nil {
			v.Set(reflect.Zero(v.Type()))
		} else {
			n := reflect.New(v.Type().Elem())
			build(n.Elem(), a[2])
			v.Set(n)
		}
	case "iface":
		if a[1] == nil {
			v.Set(reflect.Zero(v.Type()))
		} else {
			inner := jarr(a[1])
			it := jstr(inner[0])
			var ty reflect.Type
			switch it {
			case "ptr":
				ty = reflect.PointerTo(typeReg[jstr(inner[1])])
			case "struct":
				ty = typeReg[jstr(inner[1])]
			default:
				ty = typeReg[it]
			}
			n := reflect.New(ty).Elem()
			build(n, a[1])
			v.Set(n)
		}
	case "slice":
		es := jarr(a[2])
		s := reflect.MakeSlice(v.Type(), len(es), len(es))
		for i, e := range es {
			build(s.Index(i), e)
		}
		v.Set(s)
	case "map":
		m := reflect.MakeMap(v.Type())
		for _, e := range jarr(a[3]) {
			p := jarr(e)
			k := jarr(p[0])
			var kv reflect.Value
			if jstr(k[0]) == "s" {
				kv = reflect.ValueOf(jstr(k[1]))
			} else {
				kv = reflect.ValueOf(parseI(jstr(k[1]))).Convert(v.Type().Key())
			}
			ev := reflect.New(v.Type().Elem()).Elem()
			build(ev, p[1])
			m.SetMapIndex(kv, ev)
		}
		v.Set(m)
	default:
		panic("build: bad tag " + tag)
	}
}

func setScalar(v, x reflect.Value) {
	if v.Kind() == reflect.Interface {
		v.Set(x)
		return
	}
	v.Set(x.Convert(v.Type()))
}

// jsonOf turns a jobj/jarr tree into a plain JSON value
func jsonOf(t J) J {
	a := jarr(t)
	switch jstr(a[0]) {
	case "jobj":
		m := map[string]J{}
		for _, f := range jarr(a[1]) {
			p := jarr(f)
			m[jstr(p[0])] = jsonOf(p[1])
		}
		return m
	case "jarr":
		out := []J{}
		for _, e := range jarr(a[1]) {
			out = append(out, jsonOf(e))
		}
		return out
	case "float64":
		return math.Float64frombits(parseU(jstr(a[1])))
	case "string":
		return jstr(a[1])
	case "bool":
		return a[1]
	case "invalid":
		return nil
	}
	panic("jsonOf: bad tag " + jstr(a[0]))
}

func isJSONRoot(t J) bool {
	tag := jstr(jarr(t)[0])
	return tag == "jobj" || tag == "jarr"
}

// dump produces the output form of a value (type names dropped)
func dump(v reflect.Value, inJSON bool) J {
	if !v.IsValid() {
		return []J{"invalid"}
	}
	switch v.Kind() {
	case reflect.Int, reflect.Int8, reflect.Int16, reflect.Int32, reflect.Int64:
		return []J{v.Kind().String(), strconv.FormatInt(v.Int(), 10)}
	case reflect.Uint, reflect.Uint8, reflect.Uint16, reflect.Uint32, reflect.Uint64:
		return []J{v.Kind().String(), strconv.FormatUint(v.Uint(), 10)}
	case reflect.Float32, reflect.Float64:
		return []J{v.Kind().String(), strconv.FormatUint(math.Float64bits(v.Float()), 10)}
	case reflect.String:
		return []J{"string", v.String()}
	case reflect.Bool:
		return []J{"bool", v.Bool()}
	case reflect.Struct:
		if v.Type() == typeReg["time"] {
			t := v.Interface().(time.Time)
			var mono J
			if strings.Contains(t.String(), " m=") {
				mono = strconv.FormatInt(t.UnixNano()-baseTime.UnixNano(), 10)
			}
			loc := -1
			for i, l := range locs {
				if t.Location() == l {
					loc = i
				}
			}
			return []J{"time", strconv.FormatInt(t.UnixNano()-baseTime.UnixNano(), 10), strconv.Itoa(loc), mono}
		}
		fs := []J{}
		for i := 0; i < v.NumField(); i++ {
			sf := v.Type().Field(i)
			if !sf.IsExported() {
				continue
			}
			fs = append(fs, []J{sf.Name, dump(v.Field(i), false)})
		}
		return []J{"struct", fs}
	case reflect.Ptr:
		if v.IsNil() {
			return []J{"ptr", nil}
		}
		return []J{"ptr", dump(v.Elem(), false)}
	case reflect.Interface:
		if v.IsNil() {
			if inJSON {
				return []J{"invalid"}
			}
			return []J{"iface", nil}
		}
		if inJSON {
			return dump(v.Elem(), true)
		}
		return []J{"iface", dump(v.Elem(), false)}
	case reflect.Slice, reflect.Array:
		es := []J{}
		for i := 0; i < v.Len(); i++ {
			es = append(es, dump(v.Index(i), inJSON))
		}
		if inJSON {
			return []J{"jarr", es}
		}
		return []J{"slice", es}
	case reflect.Map:
		type kv struct {
			k J
			s string
			v J
		}
		var items []kv
		for _, k := range v.MapKeys() {
			var kj J
			var ks string
			if k.Kind() == reflect.String {
				kj = []J{"s", k.String()}
				ks = "s" + k.String()
			} else {
				kj = []J{"i", strconv.FormatInt(k.Int(), 10)}
				ks = fmt.Sprintf("i%020d", k.Int()+math.MaxInt32)
			}
			items = append(items, kv{kj, ks, dump(v.MapIndex(k), inJSON)})
		}
		sort.Slice(items, func(i, j int) bool { return items[i].s < items[j].s })
		es := []J{}
		for _, it := range items {
			if inJSON {
				es = append(es, []J{jarr(it.k)[1], it.v})
			} else {
				es = append(es, []J{it.k, it.v})
			}
		}
		if inJSON {
			return []J{"jobj", es}
		}
		return []J{"map", es}
	}
	return []J{"unknown", v.Kind().String()}
}

func mustJSON(x J) string {
	b, err := json.Marshal(x)
	if err != nil {
		panic(err)
	}
	return string(b)
}

package main

import (
	"bytes"
	"context"
	"encoding/hex"
	"errors"
	"fmt"
	"reflect"
	"runtime"
	"sort"
	"strings"
	"time"

	"github.com/hyperjumptech/grule-rule-engine/ast"
	"github.com/hyperjumptech/grule-rule-engine/builder"
	"github.com/hyperjumptech/grule-rule-engine/engine"
	"github.com/hyperjumptech/grule-rule-engine/pkg"
)

type world struct {
	libs   map[string]*ast.KnowledgeLibrary
	insts  map[string]*ast.KnowledgeBase
	stored map[string][]byte
	lastHex string
}

func newWorld() *world {
	return &world{libs: map[string]*ast.KnowledgeLibrary{}, insts: map[string]*ast.KnowledgeBase{}, stored: map[string][]byte{}}
}

func (w *world) lib(name string) *ast.KnowledgeLibrary {
	if l, ok := w.libs[name]; ok {
		return l
	}
	l := ast.NewKnowledgeLibrary()
	w.libs[name] = l
	return l
}

// ---- counting / cancelling context ---------------------------------------------------------

type pollCtx struct {
	polls    int
	cancelAt int // -1: never
	forced   bool
	deadline bool // report context.DeadlineExceeded instead of context.Canceled
	done     chan struct{}
}

func newPollCtx(cancelAt int) *pollCtx { return &pollCtx{cancelAt: cancelAt, done: make(chan struct{})} }

func (c *pollCtx) Deadline() (time.Time, bool)       { return time.Time{}, false }
func (c *pollCtx) Done() <-chan struct{}             { return c.done }
func (c *pollCtx) Value(key interface{}) interface{} { return nil }
func (c *pollCtx) Err() error {
	p := c.polls
	c.polls++
	if c.forced || (c.cancelAt >= 0 && p >= c.cancelAt) {
		if c.deadline {
			return context.DeadlineExceeded
		}
		return context.Canceled
	}
	return nil
}
func (c *pollCtx) cancel() { c.forced = true }

// ---- listener ----------------------------------------------------------------------------------

type recListener struct {
	ctx           *pollCtx
	events        []J
	pollAt        []int
	before        func(kind string, entry *ast.RuleEntry)
	cancelAtEvent int // -1: never; cancels the context while handling that callback
}

func (l *recListener) maybeCancel() {
	if l.cancelAtEvent >= 0 && len(l.events)-1 == l.cancelAtEvent {
		l.ctx.cancel()
	}
}

func (l *recListener) BeginCycle(ctx context.Context, cycle uint64) {
	l.events = append(l.events, []J{"b", cycle})
	l.pollAt = append(l.pollAt, l.ctx.polls)
	l.maybeCancel()
}
func (l *recListener) EvaluateRuleEntry(ctx context.Context, cycle uint64, entry *ast.RuleEntry, candidate bool) {
	l.events = append(l.events, []J{"e", cycle, entry.RuleName, candidate})
	l.pollAt = append(l.pollAt, l.ctx.polls)
	l.maybeCancel()
}
func (l *recListener) ExecuteRuleEntry(ctx context.Context, cycle uint64, entry *ast.RuleEntry) {
	l.events = append(l.events, []J{"x", cycle, entry.RuleName})
	l.pollAt = append(l.pollAt, l.ctx.polls)
	if l.before != nil {
		l.before("x", entry)
	}
	l.maybeCancel()
}

// ---- data context -------------------------------------------------------------------------------

type facts struct {
	dctx  ast.IDataContext
	roots map[string]reflect.Value // caller-owned objects (pointers to structs)
	json  map[string]bool
	rc    *runCtx
}

func mkFacts(store J) (*facts, error) {
	f := &facts{dctx: ast.NewDataContext(), roots: map[string]reflect.Value{}, json: map[string]bool{}, rc: &runCtx{}}
	for _, e := range jarr(store) {
		p := jarr(e)
		name := jstr(p[0])
		t := p[1]
		a := jarr(t)
		switch {
		case isJSONRoot(t):
			if err := f.dctx.AddJSON(name, []byte(mustJSON(jsonOf(t)))); err != nil {
				return nil, err
			}
			f.json[name] = true
		case jstr(a[0]) == "ptr":
			ty := typeReg[jstr(a[1])]
			pv := reflect.New(reflect.PointerTo(ty)).Elem()
			build(pv, t)
			if ft, ok := pv.Interface().(*Fact); ok && ft != nil {
				ft.h = f.rc
				if ft.P != nil {
					ft.P.h = f.rc
				}
				if ft.Q != nil {
					ft.Q.h = f.rc
				}
				ft.V.h = f.rc
				for _, sp := range ft.AP {
					if sp != nil {
						sp.h = f.rc
					}
				}
			}
			f.roots[name] = pv
			if err := f.dctx.Add(name, pv.Interface()); err != nil {
				return nil, err
			}
		default:
			ty := typeReg[jstr(a[0])]
			if jstr(a[0]) == "struct" {
				ty = typeReg[jstr(a[1])]
			}
			v := reflect.New(ty).Elem()
			build(v, t)
			if err := f.dctx.Add(name, v.Interface()); err != nil {
				return nil, err
			}
		}
	}
	return f, nil
}

func (f *facts) dump() J {
	keys := f.dctx.GetKeys()
	sort.Strings(keys)
	out := []J{}
	for _, k := range keys {
		if k == "DEFUNC" {
			continue
		}
		if r, ok := f.roots[k]; ok {
			// the caller's own object — unless a rule replaced the whole entry (`F = 1.5`)
			cur := f.dctx.Get(k).Value()
			if cur.IsValid() && cur.Kind() == reflect.Ptr && r.Kind() == reflect.Ptr && cur.Pointer() == r.Pointer() {
				out = append(out, []J{k, dump(r, false)})
			} else if cur.IsValid() && cur.Kind() != reflect.Ptr {
				out = append(out, []J{k, dump(cur, false)})
			} else {
				out = append(out, []J{k, dump(r, false)})
			}
			continue
		}
		vn := f.dctx.Get(k)
		out = append(out, []J{k, dump(vn.Value(), f.json[k])})
	}
	return out
}

// ---- knowledge base inspection -------------------------------------------------------------------

func kbInfo(kb *ast.KnowledgeBase) J {
	keys := []string{}
	for k := range kb.RuleEntries {
		keys = append(keys, k)
	}
	sort.Strings(keys)
	rules := []J{}
	for _, k := range keys {
		r := kb.RuleEntries[k]
		rules = append(rules, []J{k, r.RuleName, fmt.Sprint(r.Salience), r.RuleDescription, r.Deleted, r.GetSnapshot()})
	}
	return rules
}

func wmInfo(kb *ast.KnowledgeBase) (res J) {
	defer func() {
		if r := recover(); r != nil {
			res = map[string]J{"panic": fmt.Sprint(r)}
		}
	}()
	cat := kb.MakeCatalog()
	byID := map[string]string{} // AstID -> snapshot
	txt := map[string]string{}
	for id, m := range cat.Data {
		byID[id] = m.GetSnapshot()
		txt[id] = m.GetGrlText()
	}
	keysOf := func(m map[string]string) J {
		out := [][]string{}
		for k, id := range m {
			out = append(out, []string{k, txt[id]})
		}
		sort.Slice(out, func(i, j int) bool { return out[i][0] < out[j][0] })
		return out
	}
	idx := func(m map[string][]string) J {
		out := [][]J{}
		for vid, ids := range m {
			ss := []string{}
			for _, id := range ids {
				ss = append(ss, byID[id])
			}
			sort.Strings(ss)
			out = append(out, []J{byID[vid], ss})
		}
		sort.Slice(out, func(i, j int) bool { return out[i][0].(string) < out[j][0].(string) })
		return out
	}
	return map[string]J{
		"E": keysOf(cat.MemoryExpressionSnapshotMap), "A": keysOf(cat.MemoryExpressionAtomSnapshotMap),
		"V": keysOf(cat.MemoryVariableSnapshotMap), "EI": idx(cat.MemoryExpressionVariableMap),
		"AI": idx(cat.MemoryExpressionAtomVariableMap),
	}
}

// memoInfo walks the instance and lists the snapshots of nodes with Evaluated == true
func memoInfo(kb *ast.KnowledgeBase) J {
	es := map[string]bool{}
	as := map[string]bool{}
	var we func(e *ast.Expression)
	var wa func(a *ast.ExpressionAtom)
	var wv func(v *ast.Variable)
	var wargs func(al *ast.ArgumentList)
	seenE := map[*ast.Expression]bool{}
	seenA := map[*ast.ExpressionAtom]bool{}
	we = func(e *ast.Expression) {
		if e == nil || seenE[e] {
			return
		}
		seenE[e] = true
		if e.Evaluated {
			es[e.GetSnapshot()] = true
		}
		we(e.LeftExpression)
		we(e.RightExpression)
		we(e.SingleExpression)
		wa(e.ExpressionAtom)
	}
	wargs = func(al *ast.ArgumentList) {
		if al == nil {
			return
		}
		for _, x := range al.Arguments {
			we(x)
		}
	}
	wv = func(v *ast.Variable) {
		if v == nil {
			return
		}
		wv(v.Variable)
		if v.ArrayMapSelector != nil {
			we(v.ArrayMapSelector.Expression)
		}
	}
	wa = func(a *ast.ExpressionAtom) {
		if a == nil || seenA[a] {
			return
		}
		seenA[a] = true
		if a.Evaluated {
			as[a.GetSnapshot()] = true
		}
		wa(a.ExpressionAtom)
		wv(a.Variable)
		if a.FunctionCall != nil {
			wargs(a.FunctionCall.ArgumentList)
		}
		if a.ArrayMapSelector != nil {
			we(a.ArrayMapSelector.Expression)
		}
	}
	for _, r := range kb.RuleEntries {
		if r.WhenScope != nil {
			we(r.WhenScope.Expression)
		}
		if r.ThenScope != nil && r.ThenScope.ThenExpressionList != nil {
			for _, te := range r.ThenScope.ThenExpressionList.ThenExpressions {
				if te.Assignment != nil {
					wv(te.Assignment.Variable)
					we(te.Assignment.Expression)
				}
				wa(te.ExpressionAtom)
			}
		}
	}
	toList := func(m map[string]bool) []string {
		out := []string{}
		for k := range m {
			out = append(out, k)
		}
		sort.Strings(out)
		return out
	}
	return map[string]J{"E": toList(es), "A": toList(as)}
}

// ---- ops ---------------------------------------------------------------------------------------------

func classify(err error, ctxErr bool) string {
	if err == nil {
		return "ok"
	}
	msg := err.Error()
	wraps := errors.Is(err, context.Canceled) || errors.Is(err, context.DeadlineExceeded)
	switch {
	case err == context.Canceled || err == context.DeadlineExceeded:
		return "ctx"
	case strings.HasPrefix(msg, "the GruleEngine successfully selected rule candidate for execution after"):
		return "limit"
	case strings.HasPrefix(msg, "error while executing rule "):
		rest := strings.TrimPrefix(msg, "error while executing rule ")
		name := rest[:strings.Index(rest, ". got ")]
		return fmt.Sprintf("actErr:%s:%v", name, wraps)
	case strings.HasPrefix(msg, "evaluating expression in rule '"):
		rest := strings.TrimPrefix(msg, "evaluating expression in rule '")
		name := rest[:strings.Index(rest, "'")]
		return fmt.Sprintf("evalErr:%s:%v", name, wraps)
	case strings.HasPrefix(msg, "error while evaluating rule "):
		rest := strings.TrimPrefix(msg, "error while evaluating rule ")
		name := rest[:strings.Index(rest, " ! recovered")]
		return fmt.Sprintf("evalErr:%s:%v", name, wraps)
	case strings.HasPrefix(msg, "context error on evaluating rule "):
		rest := strings.TrimPrefix(msg, "context error on evaluating rule ")
		name := rest[:strings.Index(rest, ". got ")]
		return fmt.Sprintf("evalErr:%s:%v", name, wraps)
	}
	return "other:" + msg
}

func (w *world) do(op map[string]J) (res map[string]J) {
	res = map[string]J{}
	defer func() {
		if r := recover(); r != nil {
			res = map[string]J{"panic": fmt.Sprint(r)}
		}
	}()
	get := func(k string) string {
		if v, ok := op[k]; ok && v != nil {
			return jstr(v)
		}
		return ""
	}
	kbName, kbVer := get("kb"), "1"
	if v := get("ver"); v != "" {
		kbVer = v
	}
	switch get("op") {
	case "build":
		lib := w.lib(get("lib"))
		rb := builder.NewRuleBuilder(lib)
		var err error
		func() {
			defer func() {
				if r := recover(); r != nil {
					res["panic"] = fmt.Sprint(r)
					err = fmt.Errorf("panic: %v", r)
				}
			}()
			err = rb.BuildRuleFromResource(kbName, kbVer, pkg.NewBytesResource([]byte(get("text"))))
		}()
		res["ok"] = err == nil
		if err != nil {
			if rep, ok := err.(*pkg.GruleErrorReporter); ok {
				res["nerr"] = len(rep.Errors)
				kinds := map[string]int{}
				for _, e := range rep.Errors {
					m := e.Error()
					switch {
					case strings.Contains(m, "token recognition error"):
						kinds["lex"]++
					case strings.HasPrefix(m, "grl error on"):
						kinds["syntax"]++
					default:
						kinds["other"]++
					}
				}
				res["errkinds"] = kinds
				if op["errtext"] == true {
					ms := []string{}
					for _, e := range rep.Errors {
						ms = append(ms, e.Error())
					}
					res["errtext"] = ms
				}
			} else {
				res["nerr"] = -1
			}
		}
		kb := lib.GetKnowledgeBase(kbName, kbVer)
		res["rules"] = kbInfo(kb)
		if op["wm"] == true {
			res["wm"] = wmInfo(kb)
		}
	case "loader":
		// C20: one loader on arbitrary bytes; the observation is error / panic / wall time / bytes allocated
		data, _ := hex.DecodeString(get("hex"))
		var ms runtime.MemStats
		runtime.ReadMemStats(&ms)
		before := ms.TotalAlloc
		t0 := time.Now()
		var err error
		func() {
			defer func() {
				if r := recover(); r != nil {
					res["panic"] = fmt.Sprint(r)
				}
			}()
			switch get("kind") {
			case "grl":
				lib := ast.NewKnowledgeLibrary()
				err = builder.NewRuleBuilder(lib).BuildRuleFromResource("K", "1", pkg.NewBytesResource(data))
			case "jsonrule":
				lib := ast.NewKnowledgeLibrary()
				jr, e := pkg.NewJSONResourceFromResource(pkg.NewBytesResource(data))
				if e != nil {
					err = e
					return
				}
				err = builder.NewRuleBuilder(lib).BuildRuleFromResource("K", "1", jr)
			case "jsonfact":
				dctx := ast.NewDataContext()
				err = dctx.AddJSON("J", data)
			case "grb":
				lib := ast.NewKnowledgeLibrary()
				_, err = lib.LoadKnowledgeBaseFromReader(bytes.NewReader(data), true)
			}
		}()
		res["ms"] = float64(time.Since(t0).Microseconds()) / 1000.0
		runtime.ReadMemStats(&ms)
		res["alloc"] = ms.TotalAlloc - before
		res["n"] = len(data)
		res["err"] = err != nil
		if err != nil {
			m := err.Error()
			if len(m) > 200 {
				m = m[:200]
			}
			res["msg"] = m
		}
	case "jsonbuild":
		// pkg/JsonResource.go in front of the builder
		lib := w.lib(get("lib"))
		doc := []byte(get("json"))
		func() {
			defer func() {
				if r := recover(); r != nil {
					res["panic"] = fmt.Sprint(r)
					res["tok"] = false
					res["ok"] = false
				}
			}()
			jr, err := pkg.NewJSONResourceFromResource(pkg.NewBytesResource(doc))
			if err != nil {
				res["tok"] = false
				res["ok"] = false
				return
			}
			text, err := jr.Load()
			res["tok"] = err == nil
			if err != nil {
				res["why"] = err.Error()
			} else {
				res["text"] = string(text)
			}
			rb := builder.NewRuleBuilder(lib)
			jr2, _ := pkg.NewJSONResourceFromResource(pkg.NewBytesResource(doc))
			err = rb.BuildRuleFromResource(kbName, kbVer, jr2)
			res["ok"] = err == nil
			if err != nil {
				res["builderr"] = err.Error()
			}
		}()
		kb := lib.GetKnowledgeBase(kbName, kbVer)
		res["rules"] = kbInfo(kb)
	case "inst":
		lib := w.lib(get("lib"))
		kb, err := lib.NewKnowledgeBaseInstance(kbName, kbVer)
		res["ok"] = err == nil
		if err == nil {
			w.insts[get("as")] = kb
			res["rules"] = kbInfo(kb)
		}
	case "exec":
		kb := w.insts[get("inst")]
		f, err := mkFacts(op["facts"])
		if err != nil {
			res["factsErr"] = err.Error()
			return
		}
		cancelAt := -1
		if v, ok := op["cancelAt"]; ok && v != nil {
			cancelAt = int(v.(float64))
		}
		pc := newPollCtx(cancelAt)
		if op["ctxErr"] == "deadline" {
			pc.deadline = true
		}
		f.rc.cancel = pc.cancel
		eng := &engine.GruleEngine{MaxCycle: uint64(op["max"].(float64))}
		if b, ok := op["retErr"].(bool); ok {
			eng.ReturnErrOnFailedRuleEvaluation = b
		}
		main := &recListener{ctx: pc, cancelAtEvent: -1}
		if v, ok := op["cancelAtEvent"]; ok && v != nil {
			main.cancelAtEvent = int(v.(float64))
		}
		eng.Listeners = []engine.GruleEngineListener{main}
		extra := []*recListener{}
		if n, ok := op["listeners"].(float64); ok {
			for i := 0; i < int(n); i++ {
				l := &recListener{ctx: pc, cancelAtEvent: -1}
				extra = append(extra, l)
				eng.Listeners = append(eng.Listeners, l)
			}
		}
		// snapshots of the facts at every firing, for the property oracle
		snaps := []J{}
		if op["snap"] == true {
			main.before = func(kind string, entry *ast.RuleEntry) { snaps = append(snaps, f.dump()) }
		}
		var runErr error
		func() {
			defer func() {
				if r := recover(); r != nil {
					res["escaped"] = fmt.Sprint(r)
				}
			}()
			runErr = eng.ExecuteWithContext(pc, f.dctx, kb)
		}()
		res["out"] = classify(runErr, true)
		if runErr != nil {
			res["msg"] = runErr.Error()
		}
		res["trace"] = main.events
		res["pollAt"] = main.pollAt
		res["polls"] = pc.polls
		res["store"] = f.dump()
		res["calls"] = f.rc.calls
		res["memo"] = memoInfo(kb)
		if op["snap"] == true {
			res["snaps"] = snaps
		}
		agree := true
		for _, l := range extra {
			if mustJSON(l.events) != mustJSON(main.events) {
				agree = false
			}
		}
		res["listenersAgree"] = agree
		retr := []string{}
		for _, r := range kb.RuleEntries {
			if r.Retracted {
				retr = append(retr, r.RuleName)
			}
		}
		sort.Strings(retr)
		res["retracted"] = retr
	case "fetch":
		kb := w.insts[get("inst")]
		f, err := mkFacts(op["facts"])
		if err != nil {
			res["factsErr"] = err.Error()
			return
		}
		eng := &engine.GruleEngine{MaxCycle: 100}
		if b, ok := op["retErr"].(bool); ok {
			eng.ReturnErrOnFailedRuleEvaluation = b
		}
		rules, err := eng.FetchMatchingRules(f.dctx, kb)
		res["out"] = classify(err, false)
		out := []J{}
		for _, r := range rules {
			out = append(out, []J{r.RuleName, fmt.Sprint(r.Salience)})
		}
		res["rules"] = out
		res["store"] = f.dump()
		res["calls"] = f.rc.calls
	case "remove":
		if inst := get("inst"); inst != "" {
			w.insts[inst].RemoveRuleEntry(get("rule"))
			res["rules"] = kbInfo(w.insts[inst])
		} else {
			lib := w.lib(get("lib"))
			if op["viaKb"] == true {
				lib.GetKnowledgeBase(kbName, kbVer).RemoveRuleEntry(get("rule"))
			} else {
				lib.RemoveRuleEntry(get("rule"), kbName, kbVer)
			}
			res["rules"] = kbInfo(lib.GetKnowledgeBase(kbName, kbVer))
		}
	case "ptrcheck":
		// every pair among the blueprint and the named instances must share no object
		lib := w.lib(get("lib"))
		kbs := []*ast.KnowledgeBase{lib.GetKnowledgeBase(kbName, kbVer)}
		names := []string{"blueprint"}
		for _, n := range jarr(op["insts"]) {
			if kb, ok := w.insts[jstr(n)]; ok && kb != nil {
				kbs = append(kbs, kb)
				names = append(names, jstr(n))
			}
		}
		shared := []J{}
		for i := 0; i < len(kbs); i++ {
			for j := i + 1; j < len(kbs); j++ {
				for _, s := range sharedPointers(kbs[i], kbs[j]) {
					shared = append(shared, []J{names[i], names[j], s})
				}
			}
		}
		res["shared"] = shared
		res["compared"] = len(kbs)
	case "concurrent":
		for k, v := range w.concurrent(op, kbName, kbVer) {
			res[k] = v
		}
	case "info":
		if inst := get("inst"); inst != "" {
			res["rules"] = kbInfo(w.insts[inst])
		} else {
			res["rules"] = kbInfo(w.lib(get("lib")).GetKnowledgeBase(kbName, kbVer))
		}
	case "store":
		lib := w.lib(get("lib"))
		var buf bytes.Buffer
		err := lib.StoreKnowledgeBaseToWriter(&buf, kbName, kbVer)
		res["ok"] = err == nil
		w.stored[get("as")] = buf.Bytes()
		res["len"] = buf.Len()
		if op["hex"] == true {
			res["hex"] = hex.EncodeToString(buf.Bytes())
		}
		if v, ok := op["failAt"]; ok && v != nil {
			// a writer that fails at its k-th Write call
			fw := &failWriter{failAt: int(v.(float64))}
			err2 := lib.StoreKnowledgeBaseToWriter(fw, kbName, kbVer)
			res["failStoreErr"] = err2 != nil
			res["writes"] = fw.n
		}
	case "loadhex":
		hx := get("hex")
		if hx == "" {
			hx = w.lastHex // the stream of the scenario's last `wire` op (sent once, cut many times)
		}
		data, _ := hex.DecodeString(hx)
		if v, ok := op["cut"]; ok && v != nil {
			data = data[:int(v.(float64))]
		}
		lib := ast.NewKnowledgeLibrary()
		kb, err := lib.LoadKnowledgeBaseFromReader(bytes.NewReader(data), true)
		res["ok"] = err == nil
		if err == nil && op["probe"] == true {
			// what a successfully loaded prefix is worth: can it be instantiated?
			_, ierr := lib.NewKnowledgeBaseInstance(kb.Name, kb.Version)
			res["instOk"] = ierr == nil
			res["nrules"] = len(kb.RuleEntries)
		}
	case "wire":
		w.lastHex = get("hex")
		res["skip"] = "model only"
	case "load":
		lib := w.lib(get("lib"))
		data := w.stored[get("from")]
		if v, ok := op["cut"]; ok && v != nil {
			data = data[:int(v.(float64))]
		}
		ow, _ := op["overwrite"].(bool)
		kb, err := lib.LoadKnowledgeBaseFromReader(bytes.NewReader(data), ow)
		res["ok"] = err == nil
		if err == nil {
			res["rules"] = kbInfo(kb)
			res["name"] = kb.Name
			res["version"] = kb.Version
		}
	case "binop":
		l := scalarValue(op["l"])
		r := scalarValue(op["r"])
		var v reflect.Value
		var err error
		func() {
			defer func() {
				if rec := recover(); rec != nil {
					res["err"] = "panic"
				}
			}()
			switch get("o") {
			case "*":
				v, err = pkg.EvaluateMultiplication(l, r)
			case "/":
				v, err = pkg.EvaluateDivision(l, r)
			case "%":
				v, err = pkg.EvaluateModulo(l, r)
			case "+":
				v, err = pkg.EvaluateAddition(l, r)
			case "-":
				v, err = pkg.EvaluateSubtraction(l, r)
			case "&":
				v, err = pkg.EvaluateBitAnd(l, r)
			case "|":
				v, err = pkg.EvaluateBitOr(l, r)
			case ">":
				v, err = pkg.EvaluateGreaterThan(l, r)
			case "<":
				v, err = pkg.EvaluateLesserThan(l, r)
			case ">=":
				v, err = pkg.EvaluateGreaterThanEqual(l, r)
			case "<=":
				v, err = pkg.EvaluateLesserThanEqual(l, r)
			case "==":
				v, err = pkg.EvaluateEqual(l, r)
			case "!=":
				v, err = pkg.EvaluateNotEqual(l, r)
			case "&&":
				v, err = pkg.EvaluateLogicAnd(l, r)
			case "||":
				v, err = pkg.EvaluateLogicOr(l, r)
			}
			if err != nil {
				res["err"] = "error"
			} else {
				res["v"] = dump(v, false)
			}
		}()
	default:
		res["error"] = "unknown op " + get("op")
	}
	return res
}

// scalarValue builds an operand: a typed leaf, possibly behind a pointer ("pscalar") or inside an interface
// ("iscalar"); ["invalid"] is the zero reflect.Value, ["nilptr"] a nil *int64
func scalarValue(t J) reflect.Value {
	a := jarr(t)
	switch jstr(a[0]) {
	case "invalid":
		return reflect.Value{}
	case "nilptr":
		var p *int64
		return reflect.ValueOf(p)
	case "pscalar":
		inner := scalarValue(a[1])
		p := reflect.New(inner.Type())
		p.Elem().Set(inner)
		return p
	case "iscalar":
		inner := scalarValue(a[1])
		holder := reflect.New(typeReg["other"]).Elem()
		holder.Set(inner)
		return holder
	}
	ty := typeReg[jstr(a[0])]
	v := reflect.New(ty).Elem()
	build(v, t)
	return v
}

type failWriter struct {
	n      int
	failAt int
}

func (f *failWriter) Write(p []byte) (int, error) {
	k := f.n
	f.n++
	if k >= f.failAt {
		return 0, fmt.Errorf("write %d refused", k)
	}
	return len(p), nil
}

package main

import (
	"fmt"
	"math"
	"reflect"
	"strconv"
	"strings"
	"time"
)

// Fact types used by every scenario. The scenario generator (run/gen.py) and the Lean method
// catalogue (lean/Main.lean) mirror this file.

type Sub struct {
	N int64
	S string
	B bool
	F float64

	h *runCtx
}

// Score is a counted, side-effect-free method on a nested object
func (s *Sub) Score(k int64) int64 {
	if s.h != nil {
		s.h.ncalls++
		s.h.calls = append(s.h.calls, []interface{}{"Score", k})
	}
	return k + 10
}

type Fact struct {
	I   int64
	J   int64
	I8  int8
	I16 int16
	I32 int32
	In  int
	U8  uint8
	U16 uint16
	U32 uint32
	U64 uint64
	Un  uint
	F   float64
	G   float64
	F32 float32
	S   string
	T   string
	B   bool
	C   bool
	Tm  time.Time
	Tn  time.Time
	P   *Sub
	Q   *Sub
	V   Sub
	A   []int64
	AS  []string
	AF  []float64
	AP  []*Sub
	AA  [][]int64
	M   map[string]int64
	MS  map[string]string
	MI  map[int64]int64
	X   interface{}

	h *runCtx
}

// runCtx is shared by all facts of one engine call
type runCtx struct {
	calls  [][]interface{} // [name, args...]
	ncalls int
	cancel func()
}

func (f *Fact) rec(name string, args ...interface{}) int {
	if f.h == nil {
		return 0
	}
	n := f.h.ncalls
	f.h.ncalls++
	for i, a := range args {
		if x, ok := a.(float64); ok {
			args[i] = []interface{}{"f64", strconv.FormatUint(math.Float64bits(x), 10)}
		}
	}
	f.h.calls = append(f.h.calls, append([]interface{}{name}, args...))
	return n
}

func (f *Fact) Heavy(k int64) int64 { f.rec("Heavy", k); return k*2 + 1 }
func (f *Fact) GetI() int64         { f.rec("GetI"); return f.I }
func (f *Fact) Inc()                { f.rec("Inc"); f.I++ }
func (f *Fact) SetI(v int64)        { f.rec("SetI", v); f.I = v }
func (f *Fact) Str(s string) string { f.rec("Str", s); return s + "!" }
func (f *Fact) Neg(b bool) bool     { f.rec("Neg", b); return !b }
func (f *Fact) Half(x float64) float64 {
	f.rec("Half", x)
	return x / 2
}
func (f *Fact) Sum(xs ...int64) int64 {
	a := make([]interface{}, len(xs))
	var s int64
	for i, x := range xs {
		a[i] = x
		s += x
	}
	f.rec("Sum", a...)
	return s
}
// Cat joins its arguments: lets two argument lists be told apart by their result
func (f *Fact) Cat(xs ...string) string {
	a := make([]interface{}, len(xs))
	for i, x := range xs {
		a[i] = x
	}
	f.rec("Cat", a...)
	return strings.Join(xs, "|")
}
func (f *Fact) Boom(mode int64) int64 {
	f.rec("Boom", mode)
	if mode == 1 {
		panic("boom")
	}
	return mode
}

// FailAt panics when it is the k-th user-method call of the run (0-based)
func (f *Fact) FailAt(k int64) int64 {
	n := f.rec("FailAt", k)
	if int64(n) == k {
		panic(fmt.Sprintf("programmed failure at call %d", k))
	}
	return k
}
func (f *Fact) Cancel() {
	f.rec("Cancel")
	if f.h != nil && f.h.cancel != nil {
		f.h.cancel()
	}
}
func (f *Fact) GetP() *Sub { f.rec("GetP"); return f.P }

// containers handed out by a method: selectors on a call result (`F.GetA()[0]`, `F.GetM()["a"]`)
func (f *Fact) GetA() []int64          { f.rec("GetA"); return f.A }
func (f *Fact) GetA2() []int64         { f.rec("GetA2"); return f.A }
func (f *Fact) GetM() map[string]int64 { f.rec("GetM"); return f.M }

// CancelRet cancels the run's context from inside a condition or a right-hand side
func (f *Fact) CancelRet(k int64) int64 {
	f.rec("CancelRet", k)
	if f.h != nil && f.h.cancel != nil {
		f.h.cancel()
	}
	return k
}

var typeReg = map[string]reflect.Type{
	"Fact": reflect.TypeOf(Fact{}), "Sub": reflect.TypeOf(Sub{}), "*Sub": reflect.TypeOf(&Sub{}),
	"int": reflect.TypeOf(int(0)), "int8": reflect.TypeOf(int8(0)), "int16": reflect.TypeOf(int16(0)),
	"int32": reflect.TypeOf(int32(0)), "int64": reflect.TypeOf(int64(0)),
	"uint": reflect.TypeOf(uint(0)), "uint8": reflect.TypeOf(uint8(0)), "uint16": reflect.TypeOf(uint16(0)),
	"uint32": reflect.TypeOf(uint32(0)), "uint64": reflect.TypeOf(uint64(0)),
	"float32": reflect.TypeOf(float32(0)), "float64": reflect.TypeOf(float64(0)),
	"string": reflect.TypeOf(""), "bool": reflect.TypeOf(true), "time": reflect.TypeOf(time.Time{}),
	"other": reflect.TypeOf((*interface{})(nil)).Elem(), "[]int64": reflect.TypeOf([]int64{}),
}

var baseTime = time.Now()
var locs = []*time.Location{time.UTC, time.FixedZone("A", 3600), time.FixedZone("B", -7200), time.Local}

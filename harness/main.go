package main

import (
	"bufio"
	"encoding/json"
	"fmt"
	"os"
)

// stdin: one scenario per line {"id":..,"ops":[...]}; stdout: {"id":..,"res":[...]} per line
func main() {
	in := bufio.NewReaderSize(os.Stdin, 1<<20)
	out := bufio.NewWriter(os.Stdout)
	defer out.Flush()
	dec := json.NewDecoder(in)
	for {
		var sc map[string]J
		if err := dec.Decode(&sc); err != nil {
			break
		}
		w := newWorld()
		results := []J{}
		for _, o := range jarr(sc["ops"]) {
			results = append(results, w.do(o.(map[string]J)))
		}
		b, err := json.Marshal(map[string]J{"id": sc["id"], "res": results})
		if err != nil {
			b, _ = json.Marshal(map[string]J{"id": sc["id"], "error": err.Error()})
		}
		fmt.Fprintln(out, string(b))
		out.Flush()
	}
}
